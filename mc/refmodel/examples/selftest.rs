fn main() {
    let t0 = std::time::Instant::now();
    let res = refmodel::self_test(true);
    let mut bad = 0;
    for (n, ok) in &res {
        println!("{} {}", if *ok { "ok  " } else { "FAIL" }, n);
        if !*ok { bad += 1; }
    }
    println!("{} checks, {} failed, {:.2}s", res.len(), bad, t0.elapsed().as_secs_f64());
    std::process::exit(if bad == 0 { 0 } else { 2 });
}

//! Reference model for SM9_core: deliberately boring, deliberately unlike the implementation.
//!
//! * integers are `BigUint`; arithmetic mod p is `(a*b) % p`; no Montgomery form, no limbs;
//! * F_q2 = F_q[u]/(u^2+2) written out; F_q12 is the FLAT ring F_q[w]/(w^12+2) with schoolbook
//!   multiplication, extended-Euclid inversion, Frobenius / final exponentiation by generic
//!   square-and-multiply with the integer exponents q^k and (q^12-1)/r;
//! * curves are affine chord-and-tangent over a field trait; scalar multiplication is
//!   double-and-add with arbitrary-size integer scalars;
//! * the pairing is the textbook R-ate pairing (DESIGN.md appendix A).
//!
//! This crate does NOT depend on sm9_core.

pub mod vectors;

use num_bigint::BigUint;
use num_integer::Integer;
use num_traits::{One, Zero};
use std::sync::OnceLock;

pub type N = BigUint;

pub fn n(x: u64) -> N {
    N::from(x)
}
pub fn nhex(s: &str) -> N {
    let t: String = s.chars().filter(|c| !c.is_whitespace()).collect();
    N::parse_bytes(t.as_bytes(), 16).expect("hex")
}
pub fn hexn(x: &N) -> String {
    format!("{:x}", x)
}
/// big-endian, left padded / must fit
pub fn be(x: &N, len: usize) -> Vec<u8> {
    let b = x.to_bytes_be();
    assert!(b.len() <= len || (b.len() == 1 && b[0] == 0), "value does not fit");
    let mut v = vec![0u8; len];
    if !(b.len() == 1 && b[0] == 0 && len == 0) {
        let l = b.len().min(len);
        v[len - l..].copy_from_slice(&b[b.len() - l..]);
    }
    v
}
pub fn be32(x: &N) -> [u8; 32] {
    let v = be(x, 32);
    let mut a = [0u8; 32];
    a.copy_from_slice(&v);
    a
}
pub fn from_be(b: &[u8]) -> N {
    N::from_bytes_be(b)
}
pub fn hex(b: &[u8]) -> String {
    let mut s = String::with_capacity(b.len() * 2);
    for x in b {
        s.push_str(&format!("{:02x}", x));
    }
    s
}
pub fn unhex(s: &str) -> Vec<u8> {
    let t: Vec<u8> = s.bytes().filter(|c| !c.is_ascii_whitespace()).collect();
    assert!(t.len() % 2 == 0);
    t.chunks(2)
        .map(|c| u8::from_str_radix(std::str::from_utf8(c).unwrap(), 16).unwrap())
        .collect()
}

// ---------------------------------------------------------------------------------------------
// constants, recomputed from t
// ---------------------------------------------------------------------------------------------
pub struct Consts {
    pub t: N,
    pub q: N,
    pub r: N,
    pub tr: N,         // trace 6t^2+1
    pub loop_n: N,     // 6t+2
    pub twist_order: N, // r*(2q-r)
    pub twist_cof: N,  // 2q-r
    pub final_exp: N,  // (q^12-1)/r
    pub lambda: N,     // primitive cube root of unity mod r
    pub g1: Pt<Fq>,
    pub g2: Pt<F2>,
}

pub fn consts() -> &'static Consts {
    static C: OnceLock<Consts> = OnceLock::new();
    C.get_or_init(|| {
        let t = nhex("600000000058F98A");
        let t2 = &t * &t;
        let t3 = &t2 * &t;
        let t4 = &t3 * &t;
        let q = n(36) * &t4 + n(36) * &t3 + n(24) * &t2 + n(6) * &t + n(1);
        let r = n(36) * &t4 + n(36) * &t3 + n(18) * &t2 + n(6) * &t + n(1);
        let tr = n(6) * &t2 + n(1);
        assert_eq!(&q + n(1) - &tr, r);
        let loop_n = n(6) * &t + n(2);
        let twist_cof = n(2) * &q - &r;
        let twist_order = &r * &twist_cof;
        let q12 = q.pow(12);
        let (fe, rem) = (&q12 - n(1)).div_rem(&r);
        assert!(rem.is_zero());
        // lambda: cube root of unity mod r: r = 1 mod 3; lambda = g^((r-1)/3) for the first g that works
        let e3 = (&r - n(1)) / n(3);
        let mut lambda = N::zero();
        for g in 2u64..50 {
            let l = n(g).modpow(&e3, &r);
            if !l.is_one() {
                lambda = l;
                break;
            }
        }
        assert!(((&lambda * &lambda + &lambda + n(1)) % &r).is_zero());
        let g1 = Pt::Aff(
            Fq(nhex("93DE051D62BF718FF5ED0704487D01D6E1E4086909DC3280E8C4E4817C66DDDD")),
            Fq(nhex("21FE8DDA4F21E60763106512 5C395BBC1C1C00CBFA6024350C464CD70A3EA616")),
        );
        let g2 = Pt::Aff(
            F2 {
                a: nhex("3722755292130B08D2AAB97FD34EC120EE265948D19C17ABF9B7213BAF82D65B"),
                b: nhex("85AEF3D078640C98597B6027B441A01FF1DD2C190F5E93C454806C11D8806141"),
            },
            F2 {
                a: nhex("A7CF28D519BE3DA65F3170153D278FF247EFBA98A71A08116215BBA5C999A7C7"),
                b: nhex("17509B092E845C1266BA0D262CBEE6ED0736A96FA347C8BD856DC76B84EBEB96"),
            },
        );
        Consts { t, q, r, tr, loop_n, twist_order, twist_cof, final_exp: fe, lambda, g1, g2 }
    })
}
pub fn q() -> &'static N {
    &consts().q
}
pub fn r() -> &'static N {
    &consts().r
}

// ---------------------------------------------------------------------------------------------
// Z_p helpers
// ---------------------------------------------------------------------------------------------
pub fn addm(a: &N, b: &N, p: &N) -> N {
    (a + b) % p
}
pub fn subm(a: &N, b: &N, p: &N) -> N {
    ((a % p) + p - (b % p)) % p
}
pub fn mulm(a: &N, b: &N, p: &N) -> N {
    (a * b) % p
}
pub fn negm(a: &N, p: &N) -> N {
    (p - (a % p)) % p
}
pub fn invm(a: &N, p: &N) -> Option<N> {
    let a = a % p;
    if a.is_zero() {
        None
    } else {
        Some(a.modpow(&(p - n(2)), p))
    }
}
pub fn powm(a: &N, e: &N, p: &N) -> N {
    a.modpow(e, p)
}
/// Euler's criterion (0 counts as a square)
pub fn is_square_mod(a: &N, p: &N) -> bool {
    let a = a % p;
    a.is_zero() || a.modpow(&((p - n(1)) / n(2)), p).is_one()
}
/// Tonelli-Shanks, any odd prime p
pub fn sqrt_mod(a: &N, p: &N) -> Option<N> {
    let a = a % p;
    if a.is_zero() {
        return Some(N::zero());
    }
    if !is_square_mod(&a, p) {
        return None;
    }
    let mut qq = p - n(1);
    let mut s = 0u32;
    while qq.is_even() {
        qq >>= 1;
        s += 1;
    }
    let mut z = n(2);
    while is_square_mod(&z, p) {
        z += n(1);
    }
    let mut m = s;
    let mut c = z.modpow(&qq, p);
    let mut t = a.modpow(&qq, p);
    let mut rr = a.modpow(&((&qq + n(1)) / n(2)), p);
    while !t.is_one() {
        let mut i = 0u32;
        let mut tt = t.clone();
        while !tt.is_one() {
            tt = (&tt * &tt) % p;
            i += 1;
        }
        let b = c.modpow(&(N::one() << ((m - i - 1) as usize)), p);
        m = i;
        c = (&b * &b) % p;
        t = (&t * &c) % p;
        rr = (&rr * &b) % p;
    }
    assert_eq!((&rr * &rr) % p, a);
    Some(rr)
}

// ---------------------------------------------------------------------------------------------
// field trait + the three fields
// ---------------------------------------------------------------------------------------------
pub trait Fld: Clone + PartialEq + std::fmt::Debug {
    fn zero() -> Self;
    fn one() -> Self;
    fn add(&self, o: &Self) -> Self;
    fn sub(&self, o: &Self) -> Self;
    fn mul(&self, o: &Self) -> Self;
    fn neg(&self) -> Self;
    fn inv(&self) -> Option<Self>;
    fn is_zero(&self) -> bool;
    fn small(x: u64) -> Self {
        let mut acc = Self::zero();
        let one = Self::one();
        for _ in 0..x {
            acc = acc.add(&one);
        }
        acc
    }
    fn sq(&self) -> Self {
        self.mul(self)
    }
    fn pow(&self, e: &N) -> Self {
        let mut acc = Self::one();
        let bits = e.bits();
        for i in (0..bits).rev() {
            acc = acc.sq();
            if e.bit(i) {
                acc = acc.mul(self);
            }
        }
        acc
    }
}

#[derive(Clone, PartialEq, Eq, Hash, PartialOrd, Ord)]
pub struct Fq(pub N);
impl std::fmt::Debug for Fq {
    fn fmt(&self, f: &mut std::fmt::Formatter<'_>) -> std::fmt::Result {
        write!(f, "0x{:x}", self.0)
    }
}
impl Fq {
    pub fn new(x: &N) -> Fq {
        Fq(x % q())
    }
}
impl Fld for Fq {
    fn zero() -> Self {
        Fq(N::zero())
    }
    fn one() -> Self {
        Fq(N::one())
    }
    fn add(&self, o: &Self) -> Self {
        Fq(addm(&self.0, &o.0, q()))
    }
    fn sub(&self, o: &Self) -> Self {
        Fq(subm(&self.0, &o.0, q()))
    }
    fn mul(&self, o: &Self) -> Self {
        Fq(mulm(&self.0, &o.0, q()))
    }
    fn neg(&self) -> Self {
        Fq(negm(&self.0, q()))
    }
    fn inv(&self) -> Option<Self> {
        invm(&self.0, q()).map(Fq)
    }
    fn is_zero(&self) -> bool {
        self.0.is_zero()
    }
    fn small(x: u64) -> Self {
        Fq(n(x) % q())
    }
    fn pow(&self, e: &N) -> Self {
        Fq(self.0.modpow(e, q()))
    }
}

/// a + b*u with u^2 = -2
#[derive(Clone, PartialEq, Eq, Hash, PartialOrd, Ord)]
pub struct F2 {
    pub a: N,
    pub b: N,
}
impl std::fmt::Debug for F2 {
    fn fmt(&self, f: &mut std::fmt::Formatter<'_>) -> std::fmt::Result {
        write!(f, "(re=0x{:x}, im=0x{:x})", self.a, self.b)
    }
}
impl F2 {
    pub fn new(a: &N, b: &N) -> F2 {
        F2 { a: a % q(), b: b % q() }
    }
    /// norm to F_q: a^2 + 2 b^2
    pub fn norm(&self) -> N {
        let p = q();
        (&self.a * &self.a + n(2) * &self.b * &self.b) % p
    }
    /// x is a square in F_q2  <=>  its norm is a square in F_q
    pub fn is_square(&self) -> bool {
        is_square_mod(&self.norm(), q())
    }
    /// generic Tonelli-Shanks in F_q2 (group order q^2-1), independent of the library's formula
    pub fn sqrt(&self) -> Option<F2> {
        if self.is_zero() {
            return Some(F2::zero());
        }
        if !self.is_square() {
            return None;
        }
        let p = q();
        let ord = p * p - n(1);
        let mut qq = ord.clone();
        let mut s = 0u32;
        while qq.is_even() {
            qq >>= 1;
            s += 1;
        }
        // a non-square: search small elements
        let mut z = None;
        'o: for a in 0u64..20 {
            for b in 1u64..20 {
                let c = F2 { a: n(a), b: n(b) };
                if !c.is_square() {
                    z = Some(c);
                    break 'o;
                }
            }
        }
        let z = z.expect("non-residue");
        let mut m = s;
        let mut c = z.pow(&qq);
        let mut t = self.pow(&qq);
        let mut rr = self.pow(&((&qq + n(1)) / n(2)));
        let one = F2::one();
        while t != one {
            let mut i = 0u32;
            let mut tt = t.clone();
            while tt != one {
                tt = tt.sq();
                i += 1;
            }
            let b = c.pow(&(N::one() << ((m - i - 1) as usize)));
            m = i;
            c = b.sq();
            t = t.mul(&c);
            rr = rr.mul(&b);
        }
        assert_eq!(rr.sq(), *self);
        Some(rr)
    }
    pub fn conj(&self) -> F2 {
        F2 { a: self.a.clone(), b: negm(&self.b, q()) }
    }
}
impl Fld for F2 {
    fn zero() -> Self {
        F2 { a: N::zero(), b: N::zero() }
    }
    fn one() -> Self {
        F2 { a: N::one(), b: N::zero() }
    }
    fn add(&self, o: &Self) -> Self {
        F2 { a: addm(&self.a, &o.a, q()), b: addm(&self.b, &o.b, q()) }
    }
    fn sub(&self, o: &Self) -> Self {
        F2 { a: subm(&self.a, &o.a, q()), b: subm(&self.b, &o.b, q()) }
    }
    fn mul(&self, o: &Self) -> Self {
        let p = q();
        // (a + bu)(c + du) = ac - 2bd + (ad + bc)u
        let ac = &self.a * &o.a;
        let bd2 = (n(2) * &self.b * &o.b) % p;
        let re = (ac % p + p - bd2) % p;
        let im = (&self.a * &o.b + &self.b * &o.a) % p;
        F2 { a: re, b: im }
    }
    fn neg(&self) -> Self {
        F2 { a: negm(&self.a, q()), b: negm(&self.b, q()) }
    }
    fn inv(&self) -> Option<Self> {
        let nn = invm(&self.norm(), q())?;
        Some(F2 { a: mulm(&self.a, &nn, q()), b: mulm(&negm(&self.b, q()), &nn, q()) })
    }
    fn is_zero(&self) -> bool {
        self.a.is_zero() && self.b.is_zero()
    }
    fn small(x: u64) -> Self {
        F2 { a: n(x) % q(), b: N::zero() }
    }
}

/// flat F_q[w]/(w^12+2): c[i] is the coefficient of w^i
#[derive(Clone, PartialEq, Eq, Hash, Debug)]
pub struct F12(pub [N; 12]);
impl F12 {
    pub fn from_coeffs(c: &[N]) -> F12 {
        assert_eq!(c.len(), 12);
        let mut a: [N; 12] = Default::default();
        for i in 0..12 {
            a[i] = &c[i] % q();
        }
        F12(a)
    }
    pub fn monomial(k: usize, c: &N) -> F12 {
        let mut a = F12::zero();
        a.0[k % 12] = c % q();
        a
    }
    pub fn from_fq(c: &N) -> F12 {
        F12::monomial(0, c)
    }
    /// embed a + b u with u = w^6
    pub fn from_f2(x: &F2) -> F12 {
        let mut a = F12::zero();
        a.0[0] = x.a.clone();
        a.0[6] = x.b.clone();
        a
    }
    /// SM9 serialisation order: coefficients of w^[11,5,8,2,10,4,7,1,9,3,6,0]
    pub const ORDER: [usize; 12] = [11, 5, 8, 2, 10, 4, 7, 1, 9, 3, 6, 0];
    pub fn to_bytes(&self) -> Vec<u8> {
        let mut v = Vec::with_capacity(384);
        for k in F12::ORDER {
            v.extend_from_slice(&be32(&self.0[k]));
        }
        v
    }
    /// None if some 32-byte limb is >= q
    pub fn from_bytes(b: &[u8]) -> Option<F12> {
        assert_eq!(b.len(), 384);
        let mut a = F12::zero();
        for (i, k) in F12::ORDER.iter().enumerate() {
            let v = from_be(&b[32 * i..32 * i + 32]);
            if &v >= q() {
                return None;
            }
            a.0[*k] = v;
        }
        Some(a)
    }
    /// multiply by w^k (k may be any non-negative integer)
    pub fn mul_wk(&self, k: usize) -> F12 {
        let mut m = F12::zero();
        m.0[0] = N::one();
        let mut x = self.clone();
        for _ in 0..k {
            // multiply by w: shift up, c11 wraps to -2*c11 at w^0
            let mut nx = F12::zero();
            for i in 0..11 {
                nx.0[i + 1] = x.0[i].clone();
            }
            nx.0[0] = negm(&(n(2) * &x.0[11]), q());
            x = nx;
        }
        x
    }
    pub fn frobenius(&self, k: u32) -> F12 {
        self.pow(&q().pow(k))
    }
    pub fn final_exp(&self) -> F12 {
        self.pow(&consts().final_exp)
    }
}
fn poly_trim(v: &mut Vec<N>) {
    while let Some(l) = v.last() {
        if l.is_zero() {
            v.pop();
        } else {
            break;
        }
    }
}
/// polynomial division over F_q: returns (quot, rem)
fn poly_divrem(a: &[N], b: &[N]) -> (Vec<N>, Vec<N>) {
    let p = q();
    let mut r: Vec<N> = a.to_vec();
    poly_trim(&mut r);
    let db = b.len() - 1;
    let lb_inv = invm(&b[db], p).unwrap();
    if r.len() < b.len() {
        return (vec![], r);
    }
    let mut quo = vec![N::zero(); r.len() - db];
    while r.len() > db && !r.is_empty() {
        let dr = r.len() - 1;
        let c = mulm(&r[dr], &lb_inv, p);
        let sh = dr - db;
        for i in 0..=db {
            let t = mulm(&c, &b[i], p);
            r[sh + i] = subm(&r[sh + i], &t, p);
        }
        quo[sh] = c;
        poly_trim(&mut r);
        if r.len() <= db {
            break;
        }
    }
    (quo, r)
}
fn poly_mul(a: &[N], b: &[N]) -> Vec<N> {
    if a.is_empty() || b.is_empty() {
        return vec![];
    }
    let p = q();
    let mut o = vec![N::zero(); a.len() + b.len() - 1];
    for i in 0..a.len() {
        for j in 0..b.len() {
            o[i + j] = (&o[i + j] + &a[i] * &b[j]) % p;
        }
    }
    o
}
fn poly_sub(a: &[N], b: &[N]) -> Vec<N> {
    let p = q();
    let l = a.len().max(b.len());
    let mut o = vec![N::zero(); l];
    for i in 0..l {
        let x = if i < a.len() { a[i].clone() } else { N::zero() };
        let y = if i < b.len() { b[i].clone() } else { N::zero() };
        o[i] = subm(&x, &y, p);
    }
    poly_trim(&mut o);
    o
}
impl Fld for F12 {
    fn zero() -> Self {
        F12(Default::default())
    }
    fn one() -> Self {
        let mut a = F12::zero();
        a.0[0] = N::one();
        a
    }
    fn add(&self, o: &Self) -> Self {
        let mut a = F12::zero();
        for i in 0..12 {
            a.0[i] = addm(&self.0[i], &o.0[i], q());
        }
        a
    }
    fn sub(&self, o: &Self) -> Self {
        let mut a = F12::zero();
        for i in 0..12 {
            a.0[i] = subm(&self.0[i], &o.0[i], q());
        }
        a
    }
    fn mul(&self, o: &Self) -> Self {
        let p = q();
        let mut t: Vec<N> = vec![N::zero(); 23];
        for i in 0..12 {
            if self.0[i].is_zero() {
                continue;
            }
            for j in 0..12 {
                t[i + j] += &self.0[i] * &o.0[j];
            }
        }
        // w^12 = -2
        let mut a = F12::zero();
        for i in 0..12 {
            let lo = &t[i] % p;
            let hi = if i < 11 { (n(2) * &t[i + 12]) % p } else { N::zero() };
            a.0[i] = (lo + p - hi) % p;
        }
        a
    }
    fn neg(&self) -> Self {
        let mut a = F12::zero();
        for i in 0..12 {
            a.0[i] = negm(&self.0[i], q());
        }
        a
    }
    /// extended Euclid on (self, w^12+2)
    fn inv(&self) -> Option<Self> {
        if self.is_zero() {
            return None;
        }
        let p = q();
        let mut m: Vec<N> = vec![N::zero(); 13];
        m[0] = n(2);
        m[12] = N::one();
        // invariants: r0 = s0*self (mod m), r1 = s1*self (mod m)
        let mut r0 = m.clone();
        let mut r1: Vec<N> = self.0.to_vec();
        poly_trim(&mut r1);
        let mut s0: Vec<N> = vec![];
        let mut s1: Vec<N> = vec![N::one()];
        while !r1.is_empty() && r1.len() > 1 {
            let (qu, rem) = poly_divrem(&r0, &r1);
            let s2 = poly_sub(&s0, &poly_mul(&qu, &s1));
            r0 = r1;
            r1 = rem;
            s0 = s1;
            s1 = s2;
        }
        if r1.is_empty() {
            // gcd has positive degree: impossible, w^12+2 is irreducible
            return None;
        }
        let c = invm(&r1[0], p).unwrap();
        let (_, red) = poly_divrem(&s1, &m);
        let mut a = F12::zero();
        for (i, x) in red.iter().enumerate() {
            a.0[i] = mulm(x, &c, p);
        }
        Some(a)
    }
    fn is_zero(&self) -> bool {
        self.0.iter().all(|x| x.is_zero())
    }
    fn small(x: u64) -> Self {
        F12::from_fq(&n(x))
    }
}

// ---------------------------------------------------------------------------------------------
// curves y^2 = x^3 + b, affine
// ---------------------------------------------------------------------------------------------
#[derive(Clone, PartialEq, Eq, Hash, Debug)]
pub enum Pt<F> {
    Inf,
    Aff(F, F),
}
impl<F: Fld> Pt<F> {
    pub fn is_inf(&self) -> bool {
        matches!(self, Pt::Inf)
    }
    pub fn xy(&self) -> Option<(&F, &F)> {
        match self {
            Pt::Inf => None,
            Pt::Aff(x, y) => Some((x, y)),
        }
    }
}
pub fn on_curve<F: Fld>(p: &Pt<F>, b: &F) -> bool {
    match p {
        Pt::Inf => true,
        Pt::Aff(x, y) => y.sq() == x.sq().mul(x).add(b),
    }
}
pub fn ec_neg<F: Fld>(p: &Pt<F>) -> Pt<F> {
    match p {
        Pt::Inf => Pt::Inf,
        Pt::Aff(x, y) => Pt::Aff(x.clone(), y.neg()),
    }
}
/// textbook chord-and-tangent (curve coefficient a = 0)
pub fn ec_add<F: Fld>(p: &Pt<F>, qq: &Pt<F>) -> Pt<F> {
    match (p, qq) {
        (Pt::Inf, _) => qq.clone(),
        (_, Pt::Inf) => p.clone(),
        (Pt::Aff(x1, y1), Pt::Aff(x2, y2)) => {
            let lam = if x1 == x2 {
                if y1.add(y2).is_zero() {
                    return Pt::Inf;
                }
                // tangent: 3x^2 / 2y
                let num = x1.sq().mul(&F::small(3));
                let den = y1.add(y1);
                num.mul(&den.inv().expect("2y != 0"))
            } else {
                y2.sub(y1).mul(&x2.sub(x1).inv().expect("x2 != x1"))
            };
            let x3 = lam.sq().sub(x1).sub(x2);
            let y3 = lam.mul(&x1.sub(&x3)).sub(y1);
            Pt::Aff(x3, y3)
        }
    }
}
pub fn ec_sub<F: Fld>(p: &Pt<F>, qq: &Pt<F>) -> Pt<F> {
    ec_add(p, &ec_neg(qq))
}
/// double-and-add, MSB first, arbitrary-size scalar
pub fn ec_mul<F: Fld>(p: &Pt<F>, k: &N) -> Pt<F> {
    let mut acc = Pt::Inf;
    for i in (0..k.bits()).rev() {
        acc = ec_add(&acc, &acc);
        if k.bit(i) {
            acc = ec_add(&acc, p);
        }
    }
    acc
}
pub fn b1() -> Fq {
    Fq(n(5))
}
/// 5u
pub fn b2() -> F2 {
    F2 { a: N::zero(), b: n(5) }
}
pub fn g1_mul(k: &N) -> Pt<Fq> {
    ec_mul(&consts().g1, k)
}
pub fn g2_mul(k: &N) -> Pt<F2> {
    ec_mul(&consts().g2, k)
}
pub fn in_g2(p: &Pt<F2>) -> bool {
    on_curve(p, &b2()) && ec_mul(p, r()).is_inf()
}

/// Jacobian (X, Y, Z) -> affine (X/Z^2, Y/Z^3); Z = 0 is the identity
pub fn jac_to_aff<F: Fld>(x: &F, y: &F, z: &F) -> Pt<F> {
    match z.inv() {
        None => Pt::Inf,
        Some(zi) => {
            let zi2 = zi.sq();
            Pt::Aff(x.mul(&zi2), y.mul(&zi2.mul(&zi)))
        }
    }
}

// ---------------------------------------------------------------------------------------------
// the textbook R-ate pairing
// ---------------------------------------------------------------------------------------------
/// E'(F_q2) -> E(F_q12): (x', y') -> (x' w^-2, y' w^-3)
pub fn untwist(p: &Pt<F2>) -> Pt<F12> {
    match p {
        Pt::Inf => Pt::Inf,
        Pt::Aff(x, y) => {
            let w = F12::monomial(1, &N::one());
            let wi = w.inv().unwrap();
            let wi2 = wi.sq();
            let wi3 = wi2.mul(&wi);
            Pt::Aff(F12::from_f2(x).mul(&wi2), F12::from_f2(y).mul(&wi3))
        }
    }
}
pub fn embed1(p: &Pt<Fq>) -> Pt<F12> {
    match p {
        Pt::Inf => Pt::Inf,
        Pt::Aff(x, y) => Pt::Aff(F12::from_fq(&x.0), F12::from_fq(&y.0)),
    }
}
/// value at P of the line through A and B (tangent when A == B); vertical lines give 1
/// (they lie in a proper subfield and are killed by the final exponentiation)
fn line(a: &Pt<F12>, b: &Pt<F12>, p: (&F12, &F12)) -> F12 {
    let (xa, ya) = match a {
        Pt::Aff(x, y) => (x, y),
        Pt::Inf => return F12::one(),
    };
    let (xb, yb) = match b {
        Pt::Aff(x, y) => (x, y),
        Pt::Inf => return F12::one(),
    };
    let lam = if xa == xb {
        if ya.add(yb).is_zero() {
            return F12::one();
        }
        xa.sq().mul(&F12::small(3)).mul(&ya.add(ya).inv().unwrap())
    } else {
        yb.sub(ya).mul(&xb.sub(xa).inv().unwrap())
    };
    p.1.sub(ya).sub(&lam.mul(&p.0.sub(xa)))
}
/// Miller function f_{6t+2,Q}(P) times the two Frobenius line corrections (before final exp)
pub fn miller(p: &Pt<Fq>, qq: &Pt<F2>) -> F12 {
    let pp = embed1(p);
    let q0 = untwist(qq);
    assert!(on_curve(&q0, &F12::small(5)));
    let pxy = match &pp {
        Pt::Aff(x, y) => (x.clone(), y.clone()),
        Pt::Inf => panic!("miller on identity"),
    };
    let pr = (&pxy.0, &pxy.1);
    let mut f = F12::one();
    let mut t = q0.clone();
    let nn = &consts().loop_n;
    for i in (0..nn.bits() - 1).rev() {
        f = f.sq().mul(&line(&t, &t, pr));
        t = ec_add(&t, &t);
        if nn.bit(i) {
            f = f.mul(&line(&t, &q0, pr));
            t = ec_add(&t, &q0);
        }
    }
    let frob = |pt: &Pt<F12>| match pt {
        Pt::Inf => Pt::Inf,
        Pt::Aff(x, y) => Pt::Aff(x.frobenius(1), y.frobenius(1)),
    };
    let q1 = frob(&q0);
    let q2 = frob(&q1);
    f = f.mul(&line(&t, &q1, pr));
    t = ec_add(&t, &q1);
    let nq2 = ec_neg(&q2);
    f = f.mul(&line(&t, &nq2, pr));
    f
}
/// the SM9 R-ate pairing e(P, Q), P in G1, Q in G2 (1 if either is the identity)
pub fn pairing(p: &Pt<Fq>, qq: &Pt<F2>) -> F12 {
    if p.is_inf() || qq.is_inf() {
        return F12::one();
    }
    miller(p, qq).final_exp()
}

// ---------------------------------------------------------------------------------------------
// SM9 byte formats (restated from the property statements)
// ---------------------------------------------------------------------------------------------
pub fn f2_bytes(x: &F2) -> Vec<u8> {
    // imaginary part first
    let mut v = be(&x.b, 32);
    v.extend_from_slice(&be(&x.a, 32));
    v
}
pub fn g1_raw(p: &Pt<Fq>) -> Option<Vec<u8>> {
    let (x, y) = p.xy()?;
    let mut v = be(&x.0, 32);
    v.extend_from_slice(&be(&y.0, 32));
    Some(v)
}
pub fn g1_uncompressed(p: &Pt<Fq>) -> Option<Vec<u8>> {
    let mut v = vec![4u8];
    v.extend_from_slice(&g1_raw(p)?);
    Some(v)
}
pub fn g1_compressed(p: &Pt<Fq>) -> Option<Vec<u8>> {
    let (x, y) = p.xy()?;
    let mut v = vec![if y.0.is_even() { 2u8 } else { 3u8 }];
    v.extend_from_slice(&be(&x.0, 32));
    Some(v)
}
pub fn g2_raw(p: &Pt<F2>) -> Option<Vec<u8>> {
    let (x, y) = p.xy()?;
    let mut v = f2_bytes(x);
    v.extend_from_slice(&f2_bytes(y));
    Some(v)
}
pub fn g2_uncompressed(p: &Pt<F2>) -> Option<Vec<u8>> {
    let mut v = vec![4u8];
    v.extend_from_slice(&g2_raw(p)?);
    Some(v)
}
pub fn g2_compressed(p: &Pt<F2>) -> Option<Vec<u8>> {
    let (x, y) = p.xy()?;
    let mut v = vec![if y.a.is_even() { 2u8 } else { 3u8 }];
    v.extend_from_slice(&f2_bytes(x));
    Some(v)
}

#[derive(Clone, Copy, Debug, PartialEq, Eq, Hash, PartialOrd, Ord)]
pub enum Fmt {
    Raw,
    Uncompressed,
    Compressed,
}
impl Fmt {
    pub const ALL: [Fmt; 3] = [Fmt::Raw, Fmt::Uncompressed, Fmt::Compressed];
    pub fn name(self) -> &'static str {
        match self {
            Fmt::Raw => "raw",
            Fmt::Uncompressed => "uncompressed",
            Fmt::Compressed => "compressed",
        }
    }
}
fn coord(b: &[u8]) -> Option<N> {
    let v = from_be(b);
    if &v < q() {
        Some(v)
    } else {
        None
    }
}
fn coord2(b: &[u8]) -> Option<F2> {
    let im = coord(&b[..32])?;
    let re = coord(&b[32..64])?;
    Some(F2 { a: re, b: im })
}
/// reference G1 decoder: Some(point) iff exact length and prefix, coordinates < q, on curve
pub fn g1_decode(fmt: Fmt, b: &[u8]) -> Option<Pt<Fq>> {
    match fmt {
        Fmt::Raw => {
            if b.len() != 64 {
                return None;
            }
            let p = Pt::Aff(Fq(coord(&b[..32])?), Fq(coord(&b[32..])?));
            if on_curve(&p, &b1()) {
                Some(p)
            } else {
                None
            }
        }
        Fmt::Uncompressed => {
            if b.len() != 65 || b[0] != 4 {
                return None;
            }
            g1_decode(Fmt::Raw, &b[1..])
        }
        Fmt::Compressed => {
            if b.len() != 33 || (b[0] != 2 && b[0] != 3) {
                return None;
            }
            let x = coord(&b[1..])?;
            let y2 = (x.modpow(&n(3), q()) + n(5)) % q();
            let mut y = sqrt_mod(&y2, q())?;
            let want_even = b[0] == 2;
            if y.is_even() != want_even {
                y = negm(&y, q());
            }
            if y.is_even() != want_even {
                return None; // y = 0 with prefix 3: no such encoding
            }
            Some(Pt::Aff(Fq(x), Fq(y)))
        }
    }
}
/// reference G2 decoder: additionally requires r*P = O
pub fn g2_decode(fmt: Fmt, b: &[u8]) -> Option<Pt<F2>> {
    let p = match fmt {
        Fmt::Raw => {
            if b.len() != 128 {
                return None;
            }
            let p = Pt::Aff(coord2(&b[..64])?, coord2(&b[64..])?);
            if !on_curve(&p, &b2()) {
                return None;
            }
            p
        }
        Fmt::Uncompressed => {
            if b.len() != 129 || b[0] != 4 {
                return None;
            }
            return g2_decode(Fmt::Raw, &b[1..]);
        }
        Fmt::Compressed => {
            if b.len() != 65 || (b[0] != 2 && b[0] != 3) {
                return None;
            }
            let x = coord2(&b[1..])?;
            let y2 = x.sq().mul(&x).add(&b2());
            let mut y = y2.sqrt()?;
            let want_even = b[0] == 2;
            if y.a.is_even() != want_even {
                y = y.neg();
            }
            if y.a.is_even() != want_even {
                return None;
            }
            Pt::Aff(x, y)
        }
    };
    if ec_mul(&p, r()).is_inf() {
        Some(p)
    } else {
        None
    }
}

// ---------------------------------------------------------------------------------------------
// self test: binds the model to the standard
// ---------------------------------------------------------------------------------------------
pub fn is_probable_prime(x: &N) -> bool {
    // Miller-Rabin with fixed bases (deterministic far beyond what is needed as a sanity check)
    if x < &n(2) {
        return false;
    }
    for sp in [2u64, 3, 5, 7, 11, 13, 17, 19, 23, 29, 31, 37] {
        if x == &n(sp) {
            return true;
        }
        if (x % n(sp)).is_zero() {
            return false;
        }
    }
    let one = N::one();
    let xm1 = x - &one;
    let mut d = xm1.clone();
    let mut s = 0;
    while d.is_even() {
        d >>= 1;
        s += 1;
    }
    'b: for a in [2u64, 3, 5, 7, 11, 13, 17, 19, 23, 29, 31, 37, 41, 43, 47, 53] {
        let mut y = n(a).modpow(&d, x);
        if y == one || y == xm1 {
            continue;
        }
        for _ in 0..s - 1 {
            y = (&y * &y) % x;
            if y == xm1 {
                continue 'b;
            }
        }
        return false;
    }
    true
}

/// returns a list of (name, ok)
pub fn self_test(full: bool) -> Vec<(String, bool)> {
    let c = consts();
    let mut out: Vec<(String, bool)> = vec![];
    let mut t = |name: &str, ok: bool| out.push((name.to_string(), ok));
    t("q matches the standard", c.q == nhex(vectors::Q_HEX));
    t("r matches the standard", c.r == nhex(vectors::R_HEX));
    t("q prime", is_probable_prime(&c.q));
    t("r prime", is_probable_prime(&c.r));
    t("q = 5 mod 8", (&c.q % n(8)) == n(5));
    t("P1 on E", on_curve(&c.g1, &b1()));
    t("P2 on E'", on_curve(&c.g2, &b2()));
    t("r*P1 = O", g1_mul(&c.r).is_inf());
    t("r*P2 = O", g2_mul(&c.r).is_inf());
    t("P1 != O, P2 != O", !c.g1.is_inf() && !c.g2.is_inf());
    t("13*1621 | 2q-r", (&c.twist_cof % n(13 * 1621)).is_zero());
    // F12 sanity
    let x = F12::from_coeffs(&(1..=12).map(|i| n(i * 7919 + 3)).collect::<Vec<_>>());
    let xi = x.inv().unwrap();
    t("F12 inverse", x.mul(&xi) == F12::one());
    let w = F12::monomial(1, &N::one());
    t("w^12 = -2", w.pow(&n(12)) == F12::from_fq(&negm(&n(2), q())));
    t("F12 from_bytes(to_bytes)", F12::from_bytes(&x.to_bytes()).as_ref() == Some(&x));
    // F2 sqrt
    let s = F2 { a: n(12345), b: n(6789) };
    let s2 = s.sq();
    let rt = s2.sqrt().unwrap();
    t("F2 sqrt", rt == s || rt == s.neg());
    // published vectors
    let ks = nhex(vectors::KS_HEX);
    let pub_s = g2_mul(&ks);
    t(
        "[ks]P2 matches the standard",
        g2_raw(&pub_s).map(|b| hex(&b)) == Some(hex(&unhex(vectors::PUBS_RAW_HEX))),
    );
    let g = pairing(&c.g1, &pub_s);
    t("e(P1,[ks]P2) matches the published value", g.to_bytes() == unhex(vectors::G_KS_HEX));
    let rr = nhex(vectors::R_RAND_HEX);
    let gr = g.pow(&rr);
    t("e(P1,[ks]P2)^r matches the published 384 bytes", gr.to_bytes() == unhex(vectors::G_KS_R_HEX));
    if full {
        let pa = Pt::Aff(Fq(nhex(vectors::RA_X)), Fq(nhex(vectors::RA_Y)));
        let qb = Pt::Aff(
            F2 { a: nhex(vectors::DEB_XX), b: nhex(vectors::DEB_XY) },
            F2 { a: nhex(vectors::DEB_YX), b: nhex(vectors::DEB_YY) },
        );
        t("RA on E", on_curve(&pa, &b1()));
        t("deB in G2", in_g2(&qb));
        let g2v = pairing(&pa, &qb);
        t("e(RA, deB) matches the published value", g2v.to_bytes() == unhex(vectors::G_RA_DEB_HEX));
        // bilinearity of the model itself
        let a = n(0x1234567);
        let b = n(0x89abcd);
        let lhs = pairing(&g1_mul(&a), &g2_mul(&b));
        let g0 = pairing(&c.g1, &c.g2);
        t("model bilinear", lhs == g0.pow(&(&a * &b)));
        t("model g^r = 1", g0.pow(&c.r) == F12::one());
        t("model g != 1", g0 != F12::one());
        // twist order
        let x = F2 { a: n(1), b: n(1) };
        let mut xx = x.clone();
        let tw = loop {
            let y2 = xx.sq().mul(&xx).add(&b2());
            if let Some(y) = y2.sqrt() {
                break Pt::Aff(xx.clone(), y);
            }
            xx = xx.add(&F2::one());
        };
        t("twist order r(2q-r)", ec_mul(&tw, &c.twist_order).is_inf());
    }
    out
}

//! Alphabets: the finite, de-duplicated, simplest-first ordered lists whose products are explored
//! exhaustively (DESIGN.md section 4). Built from t, q, r only.

use crate::Tier;
use num_traits::{One, Zero};
use refmodel::{consts, invm, mulm, n, negm, nhex, sqrt_mod, N};
use std::collections::HashSet;

pub fn two(k: usize) -> N {
    N::one() << k
}
pub fn rmont(p: &N) -> N {
    two(256) % p
}
pub fn rinv(p: &N) -> N {
    invm(&rmont(p), p).unwrap()
}
pub fn limbs_of(x: &N) -> [u64; 4] {
    let d = x.to_u64_digits();
    let mut o = [0u64; 4];
    for (i, v) in d.iter().enumerate().take(4) {
        o[i] = *v;
    }
    o
}
pub fn from_limbs(l: &[u64; 4]) -> N {
    let mut x = N::zero();
    for i in (0..4).rev() {
        x = (x << 64) + n(l[i]);
    }
    x
}

pub struct SplitMix(pub u64);
impl SplitMix {
    pub fn next(&mut self) -> u64 {
        self.0 = self.0.wrapping_add(0x9E3779B97F4A7C15);
        let mut z = self.0;
        z = (z ^ (z >> 30)).wrapping_mul(0xBF58476D1CE4E5B9);
        z = (z ^ (z >> 27)).wrapping_mul(0x94D049BB133111EB);
        z ^ (z >> 31)
    }
    pub fn below(&mut self, p: &N) -> N {
        let mut x = N::zero();
        for _ in 0..5 {
            x = (x << 64) + n(self.next());
        }
        x % p
    }
}

/// order-preserving de-duplication
pub fn dedup(v: Vec<N>) -> Vec<N> {
    let mut seen = HashSet::new();
    let mut out = vec![];
    for x in v {
        if seen.insert(x.clone()) {
            out.push(x);
        }
    }
    out
}

pub fn limb_set(p: &N, i: usize, tier: Tier) -> Vec<u64> {
    let pl = limbs_of(p)[i];
    let mut v = vec![0u64, 1, 1 << 63, u64::MAX, pl];
    if tier == Tier::Thorough {
        v.extend_from_slice(&[2, (1 << 63) - 1, u64::MAX - 1, pl.wrapping_sub(1), pl.wrapping_add(1)]);
    }
    let mut seen = HashSet::new();
    v.retain(|x| seen.insert(*x));
    v
}

/// every 4-limb pattern over the limb sets (as 256-bit integers, not yet filtered by < p)
pub fn limb_patterns(p: &N, tier: Tier) -> Vec<N> {
    let sets: Vec<Vec<u64>> = (0..4).map(|i| limb_set(p, i, tier)).collect();
    let mut out = vec![];
    for a3 in &sets[3] {
        for a2 in &sets[2] {
            for a1 in &sets[1] {
                for a0 in &sets[0] {
                    out.push(from_limbs(&[*a0, *a1, *a2, *a3]));
                }
            }
        }
    }
    out
}

pub fn special(p: &N) -> Vec<N> {
    let rm = rmont(p);
    let ri = rinv(p);
    let mut v = vec![
        n(0),
        n(1),
        n(2),
        n(3),
        p - n(1),
        p - n(2),
        (p - n(1)) / n(2),
        (p + n(1)) / n(2),
        two(256) - p,
        rm.clone(),
        (&rm + n(1)) % p,
        (&rm + p - n(1)) % p,
        mulm(&rm, &rm, p),
        ri.clone(),
        negm(&ri, p),
        two(64),
        two(128),
        two(192),
        two(255) % p,
        two(64) - n(1),
        two(128) - n(1),
        two(192) - n(1),
        (two(255) - n(1)) % p,
        nhex(&"aa".repeat(32)) % p,
        nhex(&"55".repeat(32)) % p,
        (p - n(1)) / n(3),
        (p - n(1)) / n(4),
        (p - n(5)) / n(8),
        n(4),
        n(5),
        n(8),
        n(9),
    ];
    // sqrt(-1) and the cube roots of unity where they exist
    if let Some(i) = sqrt_mod(&(p - n(1)), p) {
        v.push(i.clone());
        v.push(negm(&i, p));
    }
    if (p % n(3)).is_one() {
        let e = (p - n(1)) / n(3);
        for g in 2u64..20 {
            let w = n(g).modpow(&e, p);
            if !w.is_one() {
                v.push(w.clone());
                v.push(mulm(&w, &w, p));
                break;
            }
        }
    }
    dedup(v)
}

pub fn generic(p: &N, seed: u64, tag: u64, count: usize) -> Vec<N> {
    let mut sm = SplitMix(seed ^ tag.wrapping_mul(0xA24BAED4963EE407));
    (0..count).map(|_| sm.below(p)).collect()
}

/// the FP(p) alphabet: canonical values
pub struct FpAlpha {
    pub p: N,
    pub all: Vec<N>,
    pub n_canon: usize,
    pub n_raw: usize,
    pub n_special: usize,
    pub n_paired: usize,
    pub n_generic: usize,
}
pub fn fp_alpha(p: &N, tier: Tier, seed: u64) -> FpAlpha {
    let pats = limb_patterns(p, tier);
    let ri = rinv(p);
    let canon: Vec<N> = pats.iter().filter(|m| *m < p).cloned().collect();
    // the element whose stored Montgomery limbs are exactly m is m * R^-1 mod p
    let raw: Vec<N> = canon.iter().map(|m| mulm(m, &ri, p)).collect();
    let sp = special(p);
    let ge = generic(p, seed, 0x46500 + (p.bits() as u64), tier.pick(16, 64));
    let mut paired = vec![];
    let rm = rmont(p);
    let base: Vec<N> = sp.iter().chain(ge.iter()).cloned().collect();
    for a in &base {
        // canonical sum exactly p
        paired.push(negm(a, p));
        // raw sum exactly 2^256: raw(b) = 2^256 - raw(a), if that is a valid stored value
        let ra = mulm(a, &rm, p);
        if !ra.is_zero() {
            let rb = two(256) - &ra;
            if &rb < p {
                paired.push(mulm(&rb, &ri, p));
            }
        }
        // raw sum exactly p is the same as canonical sum p; raw sum p-1 / p+1 neighbours
        let rb = (p - n(1) + p - &ra) % p;
        paired.push(mulm(&rb, &ri, p));
    }
    // the limb arithmetic sees STORED (Montgomery) values: every special value also as a stored value
    let sp_raw: Vec<N> = sp.iter().map(|v| mulm(v, &ri, p)).collect();
    let (nc, nr, ns, ng) = (canon.len(), raw.len(), sp.len() + sp_raw.len(), ge.len());
    let mut all = vec![];
    all.extend(sp);
    all.extend(sp_raw);
    all.extend(canon);
    all.extend(raw);
    all.extend(paired.clone());
    all.extend(ge);
    let all = dedup(all);
    FpAlpha { p: p.clone(), all, n_canon: nc, n_raw: nr, n_special: ns, n_paired: paired.len(), n_generic: ng }
}

/// a small sub-alphabet of FP(p): SPECIAL members, extreme RAW members, generic
pub fn fp_small(p: &N, count: usize, seed: u64) -> Vec<N> {
    let ri = rinv(p);
    let mut v = vec![
        n(0),
        n(1),
        n(2),
        p - n(1),
        (p - n(1)) / n(2),
        (p + n(1)) / n(2),
        ri.clone(),          // stored limbs = 1
        negm(&ri, p),        // stored limbs = p-1
        mulm(&((p - n(1)) / n(2)), &ri, p), // stored limbs = (p-1)/2 : doubling lands exactly on p-1
        mulm(&((p + n(1)) / n(2)), &ri, p), // stored limbs = (p+1)/2 : doubling lands exactly on p+1
        mulm(&(two(256) - n(1) - p), &ri, p), // stored limbs = 2^256-1-p
        mulm(&from_limbs(&[u64::MAX, u64::MAX, u64::MAX, limbs_of(p)[3] - 1]), &ri, p), // all-ones low limbs
        two(255) % p,
        two(256) - p,
        n(3),
        p - n(2),
        mulm(&from_limbs(&[0, 0, 0, 1 << 63]), &ri, p),
        two(128),
    ];
    v = dedup(v);
    let mut g = generic(p, seed, 0x5a11, 64);
    let mut i = 0;
    while v.len() < count && i < g.len() {
        let x = std::mem::take(&mut g[i]);
        if !v.contains(&x) {
            v.push(x);
        }
        i += 1;
    }
    v.truncate(count);
    v
}

/// scalar alphabet K (values in Z_r)
pub fn scalars(tier: Tier, seed: u64) -> Vec<N> {
    let c = consts();
    let r = &c.r;
    let mut v = vec![
        n(0),
        n(1),
        n(2),
        n(3),
        r - n(1),
        r - n(2),
        (r - n(1)) / n(2),
        (r + n(1)) / n(2),
        c.lambda.clone(),
        two(64),
        two(128) - n(1),
        two(255) % r,
        nhex(&"aa".repeat(32)) % r,
        two(200) + n(1),
        two(200) - n(1),
        two(64) - n(1),                 // one full limb of ones
        (two(64) - n(1)) << 64,         // a full limb of ones above a zero limb
        two(128),                       // every limb boundary: 2^64 (above), 2^128, 2^192
        two(192),
    ];
    let g = generic(r, seed, 0x5ca1a5, 17);
    v.push(g[0].clone());
    if tier == Tier::Thorough {
        v.extend_from_slice(&[
            n(4),
            n(5),
            n(7),
            n(8),
            r - n(3),
            mulm(&c.lambda, &c.lambda, r),
            two(63),
            two(64) - n(1),
            two(65),
            two(127),
            two(128),
            two(192),
            two(254),
            (two(255) - n(1)) % r,
            nhex(&"55".repeat(32)) % r,
            nhex(refmodel::vectors::KS_HEX),
        ]);
        v.extend(g[1..].iter().cloned());
    }
    dedup(v)
}

/// discrete-log alphabet D (non-zero), closed under the relations the adder distinguishes:
/// equal (d,d), opposite (d, r-d), doubled (1,2), same-y (1, lambda), independent
pub fn dlogs(tier: Tier, seed: u64) -> Vec<N> {
    let c = consts();
    let r = &c.r;
    let g = generic(r, seed, 0xd106, 8);
    // lambda, lambda^2 (same y, different x) and their negatives (opposite y, different x): the curve has j = 0
    let l2 = mulm(&c.lambda, &c.lambda, r);
    let mut v = vec![n(1), n(2), r - n(1), r - n(2), c.lambda.clone(), n(3), g[0].clone(), negm(&g[0], r), negm(&c.lambda, r), l2.clone(), negm(&l2, r)];
    if tier == Tier::Thorough {
        v.extend_from_slice(&[
            n(4),
            r - n(3),
            mulm(&c.lambda, &c.lambda, r),
            negm(&c.lambda, r),
            (r - n(1)) / n(2),
            (r + n(1)) / n(2),
            two(128),
            n(5),
            n(6),
            n(7),
            r - n(4),
            nhex(refmodel::vectors::KS_HEX),
        ]);
        for x in &g[1..3] {
            v.push(x.clone());
            v.push(negm(x, r));
        }
    }
    dedup(v)
}

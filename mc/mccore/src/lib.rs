//! Explorers and plumbing shared by all checks: bounded-exhaustive product exploration (`grid`),
//! explicit-state breadth-first search (`bfs`), watchdog, evidence, replay files, known findings.
//! Does not depend on sm9_core.

pub mod alpha;

use rayon::prelude::*;
use serde_json::{json, Map, Value};
use std::collections::{BTreeMap, HashMap};
use std::sync::atomic::{AtomicBool, AtomicU64, Ordering::Relaxed};
use std::sync::Mutex;
use std::time::{Duration, Instant};

pub type Case = Value;

#[derive(Clone, Copy, PartialEq, Eq, Debug)]
pub enum Tier {
    Quick,
    Thorough,
}
impl Tier {
    pub fn name(self) -> &'static str {
        match self {
            Tier::Quick => "quick",
            Tier::Thorough => "thorough",
        }
    }
    pub fn pick<T>(self, q: T, t: T) -> T {
        match self {
            Tier::Quick => q,
            Tier::Thorough => t,
        }
    }
}

/// a property violation observed on one case
#[derive(Clone, Debug)]
pub struct Bad {
    /// coarse class of the failure (used to group counterexamples and to match known findings)
    pub class: String,
    pub msg: String,
}
pub fn bad<T>(class: &str, msg: String) -> Result<T, Bad> {
    Err(Bad { class: class.to_string(), msg })
}
#[macro_export]
macro_rules! ensure {
    ($cond:expr, $class:expr, $($arg:tt)*) => {
        if !($cond) {
            return Err($crate::Bad { class: $class.to_string(), msg: format!($($arg)*) });
        }
    };
}

#[derive(Clone, Copy, Default)]
pub struct Tally {
    /// library calls compared with the model in this case
    pub transitions: u32,
    pub nontrivial: bool,
    /// bitmask into the driver's class list
    pub classes: u32,
}
impl Tally {
    pub fn new(transitions: u32, nontrivial: bool, classes: u32) -> Tally {
        Tally { transitions, nontrivial, classes }
    }
}

#[derive(Clone, Debug)]
pub struct Fail {
    pub driver: String,
    pub index: u64,
    pub class: String,
    pub msg: String,
    pub case: Case,
    pub count: u64,
}

pub struct Spec<'a> {
    pub name: &'a str,
    pub n: u64,
    pub classes: &'a [&'a str],
    /// classes that must be hit at least once, otherwise the run is vacuous (machinery error)
    pub required: &'a [&'a str],
}

struct Slot {
    busy: AtomicBool,
    a: AtomicU64,
    b: AtomicU64,
    since_ms: AtomicU64,
}

pub struct Run {
    pub prop: String,
    pub tier: Tier,
    pub seed: u64,
    pub profile: String,
    pub verif_root: String,
    t0: Instant,
    states: AtomicU64,
    transitions: AtomicU64,
    evals: AtomicU64,
    nontrivial: AtomicU64,
    fails: Mutex<Vec<Fail>>,
    samples: Mutex<Vec<Value>>,
    drivers: Mutex<Vec<Value>>,
    extra: Mutex<Map<String, Value>>,
    machinery: Mutex<Vec<String>>,
    capped: AtomicBool,
    slots: Vec<Slot>,
    pub case_timeout: Duration,
    pub wall_cap: Duration,
    pub quiet: bool,
    /// child of another check (other build profile): report through the summary, never exit with a verdict
    pub child: bool,
}

pub fn unrank(mut i: u64, dims: &[u64]) -> Vec<usize> {
    // last axis varies fastest
    let mut out = vec![0usize; dims.len()];
    for k in (0..dims.len()).rev() {
        out[k] = (i % dims[k]) as usize;
        i /= dims[k];
    }
    out
}

impl Run {
    pub fn new(prop: &str, tier: Tier, seed: u64, profile: &str) -> Run {
        let nslots = rayon::current_num_threads() + 2;
        Run {
            prop: prop.to_string(),
            tier,
            seed,
            profile: profile.to_string(),
            verif_root: std::env::var("VERIF_ROOT").unwrap_or_else(|_| "/verif".to_string()),
            t0: Instant::now(),
            states: AtomicU64::new(0),
            transitions: AtomicU64::new(0),
            evals: AtomicU64::new(0),
            nontrivial: AtomicU64::new(0),
            fails: Mutex::new(vec![]),
            samples: Mutex::new(vec![]),
            drivers: Mutex::new(vec![]),
            extra: Mutex::new(Map::new()),
            machinery: Mutex::new(vec![]),
            capped: AtomicBool::new(false),
            slots: (0..nslots)
                .map(|_| Slot {
                    busy: AtomicBool::new(false),
                    a: AtomicU64::new(0),
                    b: AtomicU64::new(0),
                    since_ms: AtomicU64::new(0),
                })
                .collect(),
            case_timeout: Duration::from_secs(
                std::env::var("VERIF_CASE_TIMEOUT_S").ok().and_then(|s| s.parse().ok()).unwrap_or(30),
            ),
            wall_cap: Duration::from_secs(
                std::env::var("VERIF_WALL_CAP_S")
                    .ok()
                    .and_then(|s| s.parse().ok())
                    .unwrap_or(match tier {
                        Tier::Quick => 600,
                        Tier::Thorough => 4 * 3600,
                    }),
            ),
            quiet: false,
            child: false,
        }
    }
    pub fn elapsed(&self) -> f64 {
        self.t0.elapsed().as_secs_f64()
    }
    pub fn note(&self, key: &str, v: Value) {
        self.extra.lock().unwrap().insert(key.to_string(), v);
    }
    pub fn machinery_error(&self, msg: String) {
        self.machinery.lock().unwrap().push(msg);
    }
    pub fn add_sample(&self, v: Value) {
        let mut s = self.samples.lock().unwrap();
        if s.len() < 24 {
            s.push(v);
        }
    }
    pub fn over_cap(&self) -> bool {
        if self.t0.elapsed() > self.wall_cap {
            self.capped.store(true, Relaxed);
            true
        } else {
            false
        }
    }
    fn now_ms(&self) -> u64 {
        self.t0.elapsed().as_millis() as u64
    }
    fn slot_enter(&self, a: u64, b: u64) -> usize {
        let idx = rayon::current_thread_index().map(|i| i + 1).unwrap_or(0).min(self.slots.len() - 1);
        let s = &self.slots[idx];
        s.a.store(a, Relaxed);
        s.b.store(b, Relaxed);
        s.since_ms.store(self.now_ms(), Relaxed);
        s.busy.store(true, Relaxed);
        idx
    }
    fn slot_leave(&self, idx: usize) {
        self.slots[idx].busy.store(false, Relaxed);
    }
    fn hung(&self) -> Option<(u64, u64)> {
        let now = self.now_ms();
        for s in &self.slots {
            if s.busy.load(Relaxed) {
                let since = s.since_ms.load(Relaxed);
                if now.saturating_sub(since) > self.case_timeout.as_millis() as u64 {
                    return Some((s.a.load(Relaxed), s.b.load(Relaxed)));
                }
            }
        }
        None
    }
    pub fn record_fail(&self, driver: &str, index: u64, b: Bad, case: impl FnOnce() -> Case) {
        let mut f = self.fails.lock().unwrap();
        if let Some(e) = f.iter_mut().find(|e| e.driver == driver && e.class == b.class) {
            e.count += 1;
            if index < e.index {
                e.index = index;
                e.msg = b.msg;
                e.case = case();
            }
        } else {
            f.push(Fail { driver: driver.to_string(), index, class: b.class, msg: b.msg, case: case(), count: 1 });
        }
    }
    pub fn fail_count(&self) -> usize {
        self.fails.lock().unwrap().len()
    }

    /// bounded-exhaustive exploration of the index space 0..n; `f` runs the real code on case i and
    /// compares with the model, `d` writes case i out (for samples, failures, watchdog)
    pub fn grid<F, D>(&self, spec: Spec, f: F, d: D)
    where
        F: Fn(u64) -> Result<Tally, Bad> + Sync,
        D: Fn(u64) -> Case + Sync,
    {
        let t0 = Instant::now();
        let ncls = spec.classes.len();
        assert!(ncls <= 32);
        let cls: Vec<AtomicU64> = (0..ncls).map(|_| AtomicU64::new(0)).collect();
        let done = AtomicBool::new(false);
        let st = AtomicU64::new(0);
        let tr = AtomicU64::new(0);
        let nt = AtomicU64::new(0);
        let nfail = AtomicU64::new(0);
        let harness_panic: Mutex<Option<String>> = Mutex::new(None);
        if spec.n == 0 {
            self.machinery_error(format!("driver {} has an empty case space", spec.name));
            return;
        }
        std::thread::scope(|sc| {
            // watchdog
            let wd = sc.spawn(|| {
                while !done.load(Relaxed) {
                    std::thread::park_timeout(Duration::from_millis(250));
                    if let Some((a, _)) = self.hung() {
                        let b = Bad {
                            class: "non-termination".into(),
                            msg: format!("a single case did not return within {} s", self.case_timeout.as_secs()),
                        };
                        self.record_fail(spec.name, a, b, || d(a));
                        self.states.fetch_add(st.load(Relaxed), Relaxed);
                        self.transitions.fetch_add(tr.load(Relaxed), Relaxed);
                        self.evals.fetch_add(st.load(Relaxed), Relaxed);
                        self.nontrivial.fetch_add(nt.load(Relaxed), Relaxed);
                        self.capped.store(true, Relaxed);
                        self.finish_and_exit();
                    }
                }
            });
            (0..spec.n).into_par_iter().for_each(|i| {
                if self.capped.load(Relaxed) {
                    return;
                }
                if i % 1024 == 0 && self.over_cap() {
                    return;
                }
                let slot = self.slot_enter(i, 0);
                let r = std::panic::catch_unwind(std::panic::AssertUnwindSafe(|| f(i)));
                self.slot_leave(slot);
                match r {
                    Ok(Ok(t)) => {
                        st.fetch_add(1, Relaxed);
                        tr.fetch_add(t.transitions as u64, Relaxed);
                        if t.nontrivial {
                            nt.fetch_add(1, Relaxed);
                        }
                        let mut m = t.classes;
                        while m != 0 {
                            let k = m.trailing_zeros() as usize;
                            if k < ncls {
                                cls[k].fetch_add(1, Relaxed);
                            }
                            m &= m - 1;
                        }
                    }
                    Ok(Err(b)) => {
                        st.fetch_add(1, Relaxed);
                        tr.fetch_add(1, Relaxed);
                        nfail.fetch_add(1, Relaxed);
                        self.record_fail(spec.name, i, b, || d(i));
                    }
                    Err(p) => {
                        let msg = panic_msg(&p);
                        let mut h = harness_panic.lock().unwrap();
                        if h.is_none() {
                            *h = Some(format!("driver {} case {}: harness panic: {} ; case = {}", spec.name, i, msg, d(i)));
                        }
                    }
                }
            });
            done.store(true, Relaxed);
            wd.thread().unpark();
        });
        if let Some(h) = harness_panic.into_inner().unwrap() {
            self.machinery_error(h);
        }
        let states = st.load(Relaxed);
        self.states.fetch_add(states, Relaxed);
        self.evals.fetch_add(states, Relaxed);
        self.transitions.fetch_add(tr.load(Relaxed), Relaxed);
        self.nontrivial.fetch_add(nt.load(Relaxed), Relaxed);
        let mut hist = Map::new();
        for (k, name) in spec.classes.iter().enumerate() {
            hist.insert(name.to_string(), json!(cls[k].load(Relaxed)));
        }
        let complete = states == spec.n;
        if !complete && !self.capped.load(Relaxed) && self.machinery.lock().unwrap().is_empty() {
            self.machinery_error(format!("driver {}: {} of {} cases executed", spec.name, states, spec.n));
        }
        // failing cases are not classified, so an empty class proves nothing once a case of this driver failed
        if complete && nfail.load(Relaxed) == 0 {
            for rq in spec.required {
                let k = spec.classes.iter().position(|c| c == rq).expect("required class is listed");
                if cls[k].load(Relaxed) == 0 {
                    self.machinery_error(format!("driver {}: required class '{}' is empty (vacuous run)", spec.name, rq));
                }
            }
        }
        // samples: first, middle, last
        {
            let have = self.samples.lock().unwrap().len();
            if have < 24 {
                let picks: Vec<u64> = if spec.n >= 3 { vec![0, spec.n / 2, spec.n - 1] } else { vec![0] };
                for p in picks.into_iter().take(if have < 12 { 3 } else { 1 }) {
                    let mut c = d(p);
                    if let Value::Object(o) = &mut c {
                        o.insert("driver".into(), json!(spec.name));
                        o.insert("index".into(), json!(p));
                    }
                    self.add_sample(c);
                }
            }
        }
        self.drivers.lock().unwrap().push(json!({
            "driver": spec.name, "engine": "grid", "cases": spec.n, "executed": states,
            "transitions": tr.load(Relaxed), "nontrivial": nt.load(Relaxed),
            "classes": hist, "complete": complete, "wall_s": t0.elapsed().as_secs_f64(),
        }));
        if !self.quiet {
            eprintln!(
                "[{}] {:<28} cases={:<10} transitions={:<11} {:.1}s",
                self.prop, spec.name, states, tr.load(Relaxed), t0.elapsed().as_secs_f64()
            );
        }
    }

    /// explicit-state breadth-first search with exact-state de-duplication.
    /// `step(state, op)` returns None when op is disabled in that state (model-side enabledness).
    /// Returns (states, per-depth stats, all states with their path) for the caller's own reporting.
    pub fn bfs<S, FK, FS, FI>(
        &self,
        name: &str,
        ops: &[String],
        init: Vec<S>,
        max_depth: usize,
        key: FK,
        step: FS,
        inv: FI,
    ) -> BfsOut<S>
    where
        S: Send + Sync + Clone,
        FK: Fn(&S) -> Vec<u8> + Sync,
        FS: Fn(&S, usize) -> Option<Result<S, Bad>> + Sync,
        FI: Fn(&S) -> Result<(), Bad> + Sync,
    {
        let t0 = Instant::now();
        let nops = ops.len();
        let mut states: Vec<S> = vec![];
        let mut parent: Vec<(u32, u32)> = vec![]; // (parent index, op) ; u32::MAX for roots
        let mut depth_of: Vec<u16> = vec![];
        let mut seen: HashMap<Vec<u8>, u32> = HashMap::new();
        let mut per_depth: Vec<Value> = vec![];
        let mut transitions: u64 = 0;
        let done = AtomicBool::new(false);
        let path_of = |parent: &Vec<(u32, u32)>, mut i: u32| -> (u32, Vec<String>) {
            let mut p = vec![];
            while parent[i as usize].0 != u32::MAX {
                p.push(ops[parent[i as usize].1 as usize].clone());
                i = parent[i as usize].0;
            }
            p.reverse();
            (i, p)
        };
        let mk_case = |root: u32, path: &[String]| -> Case { json!({"op": format!("{}.path", name), "init": root, "path": path}) };
        for (i, s) in init.iter().enumerate() {
            let k = key(s);
            if !seen.contains_key(&k) {
                seen.insert(k, states.len() as u32);
                states.push(s.clone());
                parent.push((u32::MAX, i as u32));
                depth_of.push(0);
            }
        }
        // roots must satisfy the invariant too
        for (i, s) in states.iter().enumerate() {
            if let Err(b) = inv(s) {
                self.record_fail(name, i as u64, b, || mk_case(i as u32, &[]));
            }
        }
        let mut frontier: Vec<u32> = (0..states.len() as u32).collect();
        per_depth.push(json!({"depth": 0, "new_states": frontier.len(), "transitions": 0}));
        let mut completed_depth = 0usize;
        // shared view for the watchdog
        let wd_info: Mutex<(Vec<(u32, u32)>,)> = Mutex::new((vec![],));
        std::thread::scope(|sc| {
            let wd = sc.spawn(|| {
                while !done.load(Relaxed) {
                    std::thread::park_timeout(Duration::from_millis(250));
                    if let Some((a, b)) = self.hung() {
                        let par = wd_info.lock().unwrap().0.clone();
                        let (root, mut p) = path_of(&par, a as u32);
                        if (b as usize) < nops {
                            p.push(ops[b as usize].clone());
                        }
                        let bd = Bad {
                            class: "non-termination".into(),
                            msg: format!("a single step did not return within {} s", self.case_timeout.as_secs()),
                        };
                        self.record_fail(name, a, bd, || mk_case(root, &p));
                        self.capped.store(true, Relaxed);
                        self.finish_and_exit();
                    }
                }
            });
            for depth in 1..=max_depth {
                if self.over_cap() {
                    break;
                }
                wd_info.lock().unwrap().0 = parent.clone();
                // expand, chunk by chunk so that the successors of the whole frontier are never materialised at once
                let mut ntrans: u64 = 0;
                let mut next: Vec<u32> = vec![];
                for chunk in frontier.chunks(8192) {
                    let succ: Vec<(u32, u32, Result<(S, Vec<u8>), Bad>)> = chunk
                        .par_iter()
                        .flat_map_iter(|&si| {
                            let s = &states[si as usize];
                            let mut out = Vec::with_capacity(nops);
                            for op in 0..nops {
                                let slot = self.slot_enter(si as u64, op as u64);
                                let r = step(s, op);
                                self.slot_leave(slot);
                                match r {
                                    None => {}
                                    Some(Ok(ns)) => {
                                        let k = key(&ns);
                                        out.push((si, op as u32, Ok((ns, k))));
                                    }
                                    Some(Err(b)) => out.push((si, op as u32, Err(b))),
                                }
                            }
                            out.into_iter()
                        })
                        .collect();
                    ntrans += succ.len() as u64;
                    for (si, op, r) in succ {
                        match r {
                            Ok((ns, k)) => {
                                if !seen.contains_key(&k) {
                                    let id = states.len() as u32;
                                    seen.insert(k, id);
                                    states.push(ns);
                                    parent.push((si, op));
                                    depth_of.push(depth as u16);
                                    next.push(id);
                                }
                            }
                            Err(b) => {
                                let (root, mut p) = path_of(&parent, si);
                                p.push(ops[op as usize].clone());
                                // order failures by (depth, discovery index) so the shortest comes first
                                let idx = ((depth as u64) << 40) | si as u64;
                                self.record_fail(name, idx, b, || mk_case(root, &p));
                            }
                        }
                    }
                    if self.over_cap() {
                        break;
                    }
                }
                transitions += ntrans;
                if self.capped.load(Relaxed) {
                    break;
                }
                // invariants on the new states
                wd_info.lock().unwrap().0 = parent.clone();
                let bads: Vec<(u32, Bad)> = next
                    .par_iter()
                    .filter_map(|&id| {
                        let slot = self.slot_enter(id as u64, u64::MAX);
                        let r = inv(&states[id as usize]);
                        self.slot_leave(slot);
                        r.err().map(|b| (id, b))
                    })
                    .collect();
                for (id, b) in bads {
                    let (root, p) = path_of(&parent, id);
                    let idx = ((depth as u64) << 40) | id as u64;
                    self.record_fail(name, idx, b, || mk_case(root, &p));
                }
                per_depth.push(json!({"depth": depth, "new_states": next.len(), "transitions": ntrans}));
                completed_depth = depth;
                if !self.quiet {
                    eprintln!(
                        "[{}] {:<20} depth {:<2} states={:<9} transitions={:<10} {:.1}s",
                        self.prop,
                        name,
                        depth,
                        states.len(),
                        transitions,
                        t0.elapsed().as_secs_f64()
                    );
                }
                frontier = next;
                if frontier.is_empty() {
                    break;
                }
            }
            done.store(true, Relaxed);
            wd.thread().unpark();
        });
        let nstates = states.len() as u64;
        self.states.fetch_add(nstates, Relaxed);
        self.transitions.fetch_add(transitions, Relaxed);
        self.evals.fetch_add(transitions.max(nstates), Relaxed);
        // every non-root state is reached by a distinct shortest operation sequence
        self.nontrivial.fetch_add(nstates.saturating_sub(init.len() as u64), Relaxed);
        if completed_depth < max_depth && !frontier.is_empty() {
            self.capped.store(true, Relaxed);
        }
        // samples: the paths to three states
        for pick in [states.len() / 3, states.len() / 2, states.len() - 1] {
            let (root, p) = path_of(&parent, pick as u32);
            let mut c = mk_case(root, &p);
            if let Value::Object(o) = &mut c {
                o.insert("driver".into(), json!(name));
            }
            self.add_sample(c);
        }
        self.drivers.lock().unwrap().push(json!({
            "driver": name, "engine": "bfs", "ops": nops, "states": nstates, "transitions": transitions,
            "depth_completed": completed_depth, "depth_requested": max_depth, "per_depth": per_depth,
            "fixpoint": frontier.is_empty(), "wall_s": t0.elapsed().as_secs_f64(),
        }));
        let paths_parent = parent;
        BfsOut { states, parent: paths_parent, depth: depth_of, ops: ops.to_vec(), completed_depth, transitions }
    }

    pub fn add_counts(&self, states: u64, transitions: u64, nontrivial: u64) {
        self.states.fetch_add(states, Relaxed);
        self.evals.fetch_add(states, Relaxed);
        self.transitions.fetch_add(transitions, Relaxed);
        self.nontrivial.fetch_add(nontrivial, Relaxed);
    }
    pub fn add_driver_summary(&self, v: Value) {
        self.drivers.lock().unwrap().push(v);
    }
    pub fn summary_json(&self) -> Value {
        let fails: Vec<Value> = self
            .fails
            .lock()
            .unwrap()
            .iter()
            .map(|f| json!({"driver": f.driver, "index": f.index, "class": f.class, "msg": f.msg, "case": f.case, "count": f.count}))
            .collect();
        json!({
            "states": self.states.load(Relaxed), "transitions": self.transitions.load(Relaxed),
            "evaluations": self.evals.load(Relaxed), "nontrivial": self.nontrivial.load(Relaxed),
            "fails": fails, "machinery": *self.machinery.lock().unwrap(), "capped": self.capped.load(Relaxed),
            "drivers": *self.drivers.lock().unwrap(), "samples": *self.samples.lock().unwrap(),
            "extra": Value::Object(self.extra.lock().unwrap().clone()),
        })
    }
    /// merge the summary of a child process (same check run in another build profile)
    pub fn merge_child(&self, tag: &str, v: &Value) {
        self.states.fetch_add(v["states"].as_u64().unwrap_or(0), Relaxed);
        self.transitions.fetch_add(v["transitions"].as_u64().unwrap_or(0), Relaxed);
        self.evals.fetch_add(v["evaluations"].as_u64().unwrap_or(0), Relaxed);
        // the child explores the same cases in another configuration: they are distinct (case, profile) pairs
        self.nontrivial.fetch_add(v["nontrivial"].as_u64().unwrap_or(0), Relaxed);
        if let Some(a) = v["fails"].as_array() {
            let mut f = self.fails.lock().unwrap();
            for x in a {
                let mut case = x["case"].clone();
                if let Value::Object(o) = &mut case {
                    o.insert("profile".into(), json!(tag));
                }
                f.push(Fail {
                    driver: format!("{}@{}", x["driver"].as_str().unwrap_or("?"), tag),
                    index: x["index"].as_u64().unwrap_or(0),
                    class: x["class"].as_str().unwrap_or("?").to_string(),
                    msg: format!("[{} profile] {}", tag, x["msg"].as_str().unwrap_or("")),
                    case,
                    count: x["count"].as_u64().unwrap_or(1),
                });
            }
        }
        if let Some(a) = v["machinery"].as_array() {
            for m in a {
                self.machinery_error(format!("[{}] {}", tag, m.as_str().unwrap_or("?")));
            }
        }
        if v["capped"].as_bool().unwrap_or(false) {
            self.capped.store(true, Relaxed);
        }
        if let Some(a) = v["drivers"].as_array() {
            let mut d = self.drivers.lock().unwrap();
            for x in a {
                let mut x = x.clone();
                if let Value::Object(o) = &mut x {
                    o.insert("profile".into(), json!(tag));
                }
                d.push(x);
            }
        }
    }

    /// write evidence + replay files, print verdict lines, return the exit code
    pub fn finish(&self, meta: &Meta) -> i32 {
        let wall = self.elapsed();
        let mut fails = self.fails.lock().unwrap().clone();
        fails.sort_by(|a, b| (a.driver.as_str(), a.index).cmp(&(b.driver.as_str(), b.index)));
        let known = load_known(&self.verif_root);
        let mut lines: Vec<String> = vec![];
        let mut unknown = 0;
        let mut known_hits = 0;
        let mut fail_json: Vec<Value> = vec![];
        for f in &fails {
            let replay = json!({
                "property": self.prop, "driver": f.driver, "class": f.class, "message": f.msg,
                "case": f.case, "occurrences_in_run": f.count, "tier": self.tier.name(), "seed": self.seed,
            });
            let body = serde_json::to_string_pretty(&replay).unwrap();
            let h = fnv(&format!("{}|{}|{}", self.prop, f.class, f.case));
            let dir = format!("{}/replays", self.verif_root);
            let _ = std::fs::create_dir_all(&dir);
            let path = format!("{}/{}-{:016x}.json", dir, self.prop, h);
            let _ = std::fs::write(&path, body);
            let op = f.case["op"].as_str().unwrap_or("");
            let k = known.iter().find(|k| k.status == "open" && k.property == self.prop && k.matches(op, &f.class, &f.case));
            match k {
                Some(k) => {
                    known_hits += 1;
                    lines.push(format!("KNOWN-FINDING: property={} {} [{} x{} replay={}]", self.prop, k.what, f.class, f.count, path));
                }
                None => {
                    unknown += 1;
                    lines.push(format!("VIOLATION property={} replay={}", self.prop, path));
                    lines.push(format!("  driver={} class={} occurrences={} : {}", f.driver, f.class, f.count, truncate(&f.msg, 600)));
                }
            }
            fail_json.push(json!({"driver": f.driver, "class": f.class, "count": f.count, "replay": path, "known": k.is_some(), "message": truncate(&f.msg, 300)}));
        }
        let mach = self.machinery.lock().unwrap().clone();
        let capped = self.capped.load(Relaxed);
        let states = self.states.load(Relaxed);
        let transitions = self.transitions.load(Relaxed);
        let mut cov = Map::new();
        cov.insert("states".into(), json!(states));
        cov.insert("transitions".into(), json!(transitions));
        cov.insert("traces_validated_against_impl".into(), json!(self.evals.load(Relaxed)));
        cov.insert("evaluations".into(), json!(self.evals.load(Relaxed)));
        cov.insert("distinct_nontrivial".into(), json!(self.nontrivial.load(Relaxed)));
        cov.insert("rule".into(), json!(meta.rule));
        cov.insert("exhaustive".into(), json!(!capped && mach.is_empty()));
        cov.insert("samples".into(), json!(*self.samples.lock().unwrap()));
        cov.insert("drivers".into(), json!(*self.drivers.lock().unwrap()));
        cov.insert("engine".into(), json!(meta.engine));
        cov.insert("bounds".into(), json!(meta.bounds));
        cov.insert("profile".into(), json!(self.profile));
        cov.insert("failures".into(), json!(fail_json));
        cov.insert("known_findings_hit".into(), json!(known_hits));
        cov.insert("machinery_errors".into(), json!(mach));
        cov.insert("capped".into(), json!(capped));
        for (k, v) in self.extra.lock().unwrap().iter() {
            cov.insert(k.clone(), v.clone());
        }
        let mut assumptions: Vec<String> = vec![
            "values outside the enumerated alphabets are not covered: the claim is 'holds on every element of the enumerated finite space', not 'for all 2^256 inputs'".into(),
            "trusted: rustc, num-bigint, the reference model (validated at every start against the SM9 standard's published vectors and by py/xcheck.py)".into(),
            "x86-64, 64-bit limbs only; constant-time behaviour and side channels are out of scope".into(),
        ];
        assumptions.extend(meta.assumptions.iter().cloned());
        let ev = json!({
            "property_id": self.prop, "tier": self.tier.name(), "seed": self.seed, "level": "model_checking",
            "coverage": Value::Object(cov), "assumptions": assumptions, "wall_s": wall, "violations": unknown,
        });
        let dir = format!("{}/evidence", self.verif_root);
        let _ = std::fs::create_dir_all(&dir);
        let path = format!("{}/{}.json", dir, self.prop);
        if let Err(e) = std::fs::write(&path, serde_json::to_string_pretty(&ev).unwrap()) {
            eprintln!("MACHINERY: cannot write {}: {}", path, e);
            return 2;
        }
        if self.tier == Tier::Thorough {
            // keep the last thorough result next to the per-change (quick) evidence, for reference
            let d2 = format!("{}/evidence-thorough", self.verif_root);
            let _ = std::fs::create_dir_all(&d2);
            let _ = std::fs::write(format!("{}/{}.json", d2, self.prop), serde_json::to_string_pretty(&ev).unwrap());
        }
        for l in &lines {
            println!("{}", l);
        }
        println!(
            "[{}] {} tier={} profile={} states={} transitions={} nontrivial={} violations={} known={} wall={:.1}s",
            self.prop,
            if unknown > 0 { "VIOLATED" } else if !mach.is_empty() || capped { "INCONCLUSIVE" } else { "HOLDS" },
            self.tier.name(),
            self.profile,
            states,
            transitions,
            self.nontrivial.load(Relaxed),
            unknown,
            known_hits,
            wall
        );
        if unknown > 0 {
            return 1;
        }
        if !mach.is_empty() || capped {
            for m in &mach {
                println!("MACHINERY: {}", truncate(m, 1500));
            }
            if capped {
                println!("MACHINERY: a wall-clock cap was hit; the exploration is incomplete");
            }
            return 2;
        }
        0
    }
    pub fn finish_and_exit(&self) -> ! {
        if self.child {
            println!("{}", self.summary_json());
            std::process::exit(0);
        }
        let m = FINISH_META.lock().unwrap().clone().unwrap_or_default();
        let code = self.finish(&m);
        std::process::exit(code);
    }
}

pub struct BfsOut<S> {
    pub states: Vec<S>,
    pub parent: Vec<(u32, u32)>,
    pub depth: Vec<u16>,
    pub ops: Vec<String>,
    pub completed_depth: usize,
    pub transitions: u64,
}
impl<S> BfsOut<S> {
    pub fn path(&self, mut i: usize) -> (usize, Vec<String>) {
        let mut p = vec![];
        while self.parent[i].0 != u32::MAX {
            p.push(self.ops[self.parent[i].1 as usize].clone());
            i = self.parent[i].0 as usize;
        }
        p.reverse();
        (i, p)
    }
}

#[derive(Clone, Default)]
pub struct Meta {
    pub rule: String,
    pub engine: String,
    pub bounds: Value,
    pub assumptions: Vec<String>,
}
/// meta used when the watchdog has to terminate the process from inside an explorer
pub static FINISH_META: Mutex<Option<Meta>> = Mutex::new(None);

pub fn truncate(s: &str, n: usize) -> String {
    if s.len() <= n {
        s.to_string()
    } else {
        let mut e = n;
        while !s.is_char_boundary(e) {
            e -= 1;
        }
        format!("{}…", &s[..e])
    }
}
pub fn fnv(s: &str) -> u64 {
    let mut h: u64 = 0xcbf29ce484222325;
    for b in s.bytes() {
        h ^= b as u64;
        h = h.wrapping_mul(0x100000001b3);
    }
    h
}
pub fn panic_msg(p: &Box<dyn std::any::Any + Send>) -> String {
    if let Some(s) = p.downcast_ref::<&str>() {
        s.to_string()
    } else if let Some(s) = p.downcast_ref::<String>() {
        s.clone()
    } else {
        "<non-string panic payload>".to_string()
    }
}

// ---------------------------------------------------------------------------------------------
// known findings (committed file, never written at run time)
// ---------------------------------------------------------------------------------------------
pub struct Known {
    pub property: String,
    pub status: String,
    pub op: String,
    pub class: String,
    pub case_contains: Option<Value>,
    pub what: String,
}
impl Known {
    /// an entry matches a violation only if the operation, the failure class and (when given) every
    /// listed field of the case agree: a different violation of the same property is still reported
    pub fn matches(&self, op: &str, class: &str, case: &Value) -> bool {
        if self.op != op || self.class != class {
            return false;
        }
        if let Some(Value::Object(m)) = &self.case_contains {
            for (k, v) in m {
                if &case[k] != v {
                    return false;
                }
            }
        }
        true
    }
}
pub fn load_known(root: &str) -> Vec<Known> {
    let p = format!("{}/known_findings.json", root);
    let txt = match std::fs::read_to_string(&p) {
        Ok(t) => t,
        Err(_) => return vec![],
    };
    let v: Value = match serde_json::from_str(&txt) {
        Ok(v) => v,
        Err(e) => {
            eprintln!("MACHINERY: {} does not parse: {}", p, e);
            std::process::exit(2);
        }
    };
    let mut out = vec![];
    if let Some(a) = v["findings"].as_array() {
        for e in a {
            out.push(Known {
                property: e["property"].as_str().unwrap_or("").to_string(),
                status: e["status"].as_str().unwrap_or("").to_string(),
                op: e["op"].as_str().unwrap_or("").to_string(),
                class: e["class"].as_str().unwrap_or("").to_string(),
                case_contains: e.get("case_contains").cloned(),
                what: e["what"].as_str().unwrap_or("").to_string(),
            });
        }
    }
    out
}

// ---------------------------------------------------------------------------------------------
// case field helpers for replays
// ---------------------------------------------------------------------------------------------
pub fn jn(x: &refmodel::N) -> Value {
    json!(format!("0x{}", refmodel::hexn(x)))
}
pub fn jb(b: &[u8]) -> Value {
    json!(refmodel::hex(b))
}
pub fn gn(v: &Value, k: &str) -> refmodel::N {
    let s = v[k].as_str().unwrap_or_else(|| panic!("replay case lacks integer field {}", k));
    refmodel::nhex(s.trim_start_matches("0x"))
}
pub fn gb(v: &Value, k: &str) -> Vec<u8> {
    refmodel::unhex(v[k].as_str().unwrap_or_else(|| panic!("replay case lacks bytes field {}", k)))
}
pub fn gs(v: &Value, k: &str) -> String {
    v[k].as_str().unwrap_or_else(|| panic!("replay case lacks string field {}", k)).to_string()
}
pub fn gu(v: &Value, k: &str) -> u64 {
    v[k].as_u64().unwrap_or_else(|| panic!("replay case lacks integer field {}", k))
}

/// histogram helper for model-side classes computed outside the explorers
pub fn hist_json(h: &BTreeMap<String, u64>) -> Value {
    let mut m = Map::new();
    for (k, v) in h {
        m.insert(k.clone(), json!(v));
    }
    Value::Object(m)
}

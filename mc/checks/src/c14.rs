//! C14 — square roots are sound and complete in Fq and Fq2.

use crate::api::{fq, fq2, fq2v, fqv, lib, GroupApi};
use crate::c12::fq2_alpha;
use mccore::alpha::{dedup, fp_alpha};
use mccore::{ensure, gs, gu, jn, Bad, Meta, Run, Spec, Tally};
use num_traits::{One, Zero};
use refmodel::{be, is_square_mod, mulm, n, negm, q, F2, Fld, Fmt, N};
use serde_json::{json, Value};
use sm9_core::{G1, G2};

pub fn fq_case(a: &N) -> Result<u32, Bad> {
    let p = q();
    let la = fq(a);
    let got = lib("Fq::sqrt", || la.sqrt())?;
    let sq = is_square_mod(a, p);
    match got {
        Some(s) => {
            let sv = fqv(&s);
            ensure!(mulm(&sv, &sv, p) == *a, "unsound", "Fq sqrt({:x}) = {:x} whose square is not the input ({})", a, sv, if sq { "a root exists" } else { "the input is a non-residue" });
            let back = lib("mul", || s * s)?;
            ensure!(back == la, "unsound", "Fq sqrt({:x}): s*s != x in the library", a);
            if a.is_zero() {
                ensure!(sv.is_zero(), "unsound", "Fq sqrt(0) = {:x}", sv);
            }
        }
        None => {
            ensure!(!sq, "incomplete", "Fq sqrt({:x}) = None although the input is a square (Euler's criterion)", a);
        }
    }
    Ok(1)
}
pub fn fq2_case(x: &F2) -> Result<u32, Bad> {
    let lx = fq2(x);
    let got = lib("Fq2::sqrt", || lx.sqrt())?;
    let sq = x.is_square();
    match got {
        Some(s) => {
            let sv = fq2v(&s);
            ensure!(sv.sq() == *x, "unsound", "Fq2 sqrt({:x?}) = {:x?} whose square is not the input", x, sv);
            let back = lib("mul", || s * s)?;
            ensure!(back == lx, "unsound", "Fq2 sqrt({:x?}): s*s != x in the library", x);
            if x.is_zero() {
                ensure!(sv.is_zero(), "unsound", "Fq2 sqrt(0) != 0");
            }
        }
        None => {
            let cls = if x.b.is_zero() { "incomplete-real" } else if x.a.is_zero() { "incomplete-imaginary" } else { "incomplete" };
            ensure!(!sq, cls, "Fq2 sqrt({:x?}) = None although the input is a square (its norm is a square in Fq)", x);
        }
    }
    Ok(1)
}
/// G1 has cofactor 1: from_compressed(02||x) and (03||x) succeed exactly when x^3+5 is a square
pub fn g1x_case(x: u64) -> Result<u32, Bad> {
    let p = q();
    let xv = n(x);
    let y2 = (xv.modpow(&n(3), p) + n(5)) % p;
    let carries = is_square_mod(&y2, p);
    for pre in [2u8, 3u8] {
        let mut b = vec![pre];
        b.extend(be(&xv, 32));
        let got = lib("G1::from_compressed", || G1::from_compressed(&b))?;
        let want = refmodel::g1_decode(Fmt::Compressed, &b);
        ensure!(
            got.is_ok() == want.is_some(),
            "compressed-accept",
            "G1::from_compressed({:02x}||{}) is_ok={} but x^3+5 is {}a square",
            pre,
            x,
            got.is_ok(),
            if carries { "" } else { "not " }
        );
        // which point comes back (parity convention, coordinates) is C08/C10's business; here only success
    }
    Ok(2)
}
fn comp_case<G: GroupApi>(d: &N) -> Result<u32, Bad> {
    let p = crate::api::ref_mul::<G>(d);
    let b = G::ref_encode(&p, Fmt::Compressed).expect("non-identity");
    let got = lib("from_compressed", || G::decode(Fmt::Compressed, &b))?;
    match got {
        Ok(_) => {}
        Err(e) => return mccore::bad("compressed-accept", format!("{} from_compressed rejects the valid encoding of {:x}*G: {}", G::NAME, d, e)),
    }
    Ok(1)
}

pub fn run(run: &Run) {
    let p = q().clone();
    let al = fp_alpha(&p, run.tier, run.seed);
    // Fq: a, a^2, 2a^2 for every a, plus -a^2
    let mut fqs: Vec<N> = vec![n(0), n(1), &p - n(1), &p - n(2)];
    for a in &al.all {
        fqs.push(a.clone());
        let s = mulm(a, a, &p);
        fqs.push(s.clone());
        fqs.push(mulm(&n(2), &s, &p));
        fqs.push(negm(&s, &p));
    }
    let fqs = dedup(fqs);
    run.grid(
        Spec { name: "c14.Fq.sqrt", n: fqs.len() as u64, classes: &["square", "non-residue", "x>q/2"], required: &["square", "non-residue", "x>q/2"] },
        |i| {
            let a = &fqs[i as usize];
            fq_case(a)?;
            let mut c = if is_square_mod(a, &p) { 1 } else { 2 };
            if a > &(&p / n(2)) {
                c |= 4;
            }
            Ok(Tally::new(1, a > &n(1), c))
        },
        |i| json!({"op": "c14.fq", "a": jn(&fqs[i as usize])}),
    );
    // Fq2
    let base = fq2_alpha(run.tier.pick(14, 100), run.seed);
    // a fixed non-residue of Fq2
    let mut nu = F2 { a: n(1), b: n(1) };
    while nu.is_square() {
        nu.a += n(1);
    }
    let mut xs: Vec<F2> = vec![];
    for x in &base {
        xs.push(x.clone());
        let s = x.sq();
        xs.push(nu.mul(&s));
        xs.push(s);
    }
    // elements of PRESCRIBED NORM: w = conj(z)/z has norm 1; t*w has norm t^2. Square-root formulas go through the
    // norm, so norm 1 / -1 / 4 / a generic square are where a shortcut (or a forgotten fallback) would sit. All of
    // them are squares of F_q2 (their norm is a square of F_q).
    {
        let ts: Vec<N> = vec![n(1), &p - n(1), n(2), mccore::alpha::generic(&p, run.seed, 0xa816, 1).pop().unwrap()];
        for z in base.iter().filter(|z| !z.is_zero() && !z.b.is_zero() && !z.a.is_zero()).take(run.tier.pick(24, 400)) {
            if let Some(zi) = z.inv() {
                let w = z.conj().mul(&zi);
                for t in &ts {
                    xs.push(w.mul(&F2 { a: t.clone(), b: N::zero() }));
                }
                // and the non-squares next to them
                xs.push(nu.mul(&w));
            }
        }
    }
    // the real and the imaginary axis, both signs
    let axis = mccore::alpha::dedup({
        let mut v = mccore::alpha::special(&p);
        v.extend(mccore::alpha::fp_small(&p, run.tier.pick(16, 64), run.seed));
        v.extend(mccore::alpha::generic(&p, run.seed, 0xa815, run.tier.pick(16, 256)));
        let neg: Vec<N> = v.iter().map(|a| negm(a, &p)).collect();
        v.extend(neg);
        if run.tier == mccore::Tier::Thorough {
            v.extend(al.all.iter().cloned());
        }
        v
    });
    for a in &axis {
        xs.push(F2 { a: a.clone(), b: N::zero() });
        xs.push(F2 { a: N::zero(), b: a.clone() });
    }
    // operands of the modular HALVINGS inside Fq2::sqrt with a prescribed stored (Montgomery) word h: odd, with a run
    // of one bits above bit 0 that crosses 1, 2 or 3 limb boundaries, or with a zero low limb above bit 0 (the carry
    // classes of a limb-wise (a + q) / 2). (i) a real non-residue a = -h (the root is sqrt(-a/2) u); (ii) squares
    // (c + d u)^2 with 2 c^2 = h resp. -4 d^2 = h (the two candidates (a +- w)/2 of the general arm).
    let mut n_halving = 0u64;
    {
        let ri = mccore::alpha::rinv(&p);
        let hi = refmodel::nhex("123456789abcdef00fedcba987654321") << 128u32;
        let half_inv = refmodel::invm(&n(2), &p).unwrap();
        let m4_inv = refmodel::invm(&negm(&n(4), &p), &p).unwrap();
        for (w, low) in [(65u32, (N::one() << 65u32) - N::one()), (129, (N::one() << 129u32) - N::one()), (193, (N::one() << 193u32) - N::one()), (65, N::one())] {
            let mut done = [false; 3];
            for k in 1u64..200 {
                let m = ((&hi >> (w + 24)) << (w + 24)) | (N::from(k) << w) | &low;
                if m >= p {
                    continue;
                }
                let h = mulm(&m, &ri, &p);
                let a = negm(&h, &p);
                if !done[0] && !refmodel::is_square_mod(&a, &p) {
                    xs.push(F2 { a: a.clone(), b: N::zero() });
                    done[0] = true;
                    n_halving += 1;
                }
                if !done[1] {
                    if let Some(c) = refmodel::sqrt_mod(&mulm(&h, &half_inv, &p), &p) {
                        xs.push(F2 { a: c.clone(), b: n(1) }.sq());
                        xs.push(F2 { a: c, b: n(3) }.sq());
                        done[1] = true;
                        n_halving += 2;
                    }
                }
                if !done[2] {
                    if let Some(d) = refmodel::sqrt_mod(&mulm(&h, &m4_inv, &p), &p) {
                        xs.push(F2 { a: n(1), b: d.clone() }.sq());
                        xs.push(F2 { a: n(3), b: d }.sq());
                        done[2] = true;
                        n_halving += 2;
                    }
                }
                if done.iter().all(|x| *x) {
                    break;
                }
            }
        }
    }
    run.note("halving_operand_members", json!(n_halving));
    let mut seen = std::collections::HashSet::new();
    xs.retain(|x| seen.insert(x.clone()));
    const C2: [&str; 10] = ["square", "non-residue", "real:residue<q/2", "real:residue>q/2", "real:nonresidue<q/2", "real:nonresidue>q/2", "purely-imaginary", "generic", "norm=1,im!=0", "norm=1,im!=0,2(re+1) a non-residue"];
    let half = &p / n(2);
    run.grid(
        Spec { name: "c14.Fq2.sqrt", n: xs.len() as u64, classes: &C2, required: &C2 },
        |i| {
            let x = &xs[i as usize];
            fq2_case(x)?;
            let mut c = if x.is_square() { 1 } else { 2 };
            if x.b.is_zero() && !x.a.is_zero() {
                let res = is_square_mod(&x.a, &p);
                let big = x.a > half;
                c |= match (res, big) {
                    (true, false) => 4,
                    (true, true) => 8,
                    (false, false) => 16,
                    (false, true) => 32,
                };
            } else if x.a.is_zero() && !x.b.is_zero() {
                c |= 64;
            } else if !x.is_zero() {
                c |= 128;
            }
            if !x.b.is_zero() && x.mul(&x.conj()) == F2::one() {
                c |= 256;
                if !is_square_mod(&((n(2) * (&x.a + n(1))) % &p), &p) {
                    c |= 512;
                }
            }
            Ok(Tally::new(1, !x.is_zero(), c))
        },
        |i| json!({"op": "c14.fq2", "x": {"re": jn(&xs[i as usize].a), "im": jn(&xs[i as usize].b)}}),
    );
    // small-scope complete: EVERY x = a + b u with a, b below the bound
    let ns: u64 = run.tier.pick(48, 384);
    run.grid(
        Spec { name: "c14.Fq2.sqrt.every-small", n: ns * ns, classes: &["square", "non-residue"], required: &["square", "non-residue"] },
        |i| {
            let x = F2 { a: n(i / ns), b: n(i % ns) };
            fq2_case(&x)?;
            Ok(Tally::new(1, i > 0, if x.is_square() { 1 } else { 2 }))
        },
        |i| json!({"op": "c14.fq2", "x": {"re": jn(&n(i / ns)), "im": jn(&n(i % ns))}}),
    );
    // every small x as a compressed G1 encoding
    let nx: u64 = run.tier.pick(512, 1 << 20);
    run.grid(
        Spec { name: "c14.G1.from_compressed.every-small-x", n: nx, classes: &["carries-a-point", "no-point"], required: &["carries-a-point", "no-point"] },
        |i| {
            g1x_case(i)?;
            let y2 = (n(i).modpow(&n(3), &p) + n(5)) % &p;
            Ok(Tally::new(2, true, if is_square_mod(&y2, &p) { 1 } else { 2 }))
        },
        |i| json!({"op": "c14.g1x", "x": i}),
    );
    // process-wide state in its INITIAL condition: each case below is the first square root a fresh process takes
    // (a memo / lazily built table that is wrong until something else has filled it would show only here)
    {
        let mut nr = n(2);
        while is_square_mod(&nr, &p) {
            nr += n(1);
        }
        let f2j = |a: &N, b: &N| crate::api::jf2(&F2 { a: a.clone(), b: b.clone() });
        let fresh: Vec<Value> = vec![
            json!({"op": "c14.fq", "a": jn(&N::zero())}),
            json!({"op": "c14.fq", "a": jn(&n(1))}),
            json!({"op": "c14.fq", "a": jn(&n(4))}),
            json!({"op": "c14.fq", "a": jn(&nr)}),
            json!({"op": "c14.fq", "a": jn(&(&p - n(1)))}),
            json!({"op": "c14.fq2", "x": f2j(&N::zero(), &N::zero())}),
            json!({"op": "c14.fq2", "x": f2j(&n(1), &N::zero())}),
            json!({"op": "c14.fq2", "x": f2j(&nr, &N::zero())}),
            json!({"op": "c14.fq2", "x": f2j(&N::zero(), &n(1))}),
            json!({"op": "c14.fq2", "x": crate::api::jf2(&F2 { a: n(3), b: n(5) }.sq())}),
            json!({"op": "c14.fq2", "x": crate::api::jf2(&nu)}),
            json!({"op": "c14.comp", "group": "G1", "d": jn(&n(1))}),
            json!({"op": "c14.comp", "group": "G2", "d": jn(&n(1))}),
            json!({"op": "c14.g1x", "x": 0}),
        ];
        run.grid(
            Spec { name: "c14.fresh-process", n: fresh.len() as u64, classes: &[], required: &[] },
            |i| {
                crate::outcome_fresh(&fresh[i as usize])?;
                Ok(Tally::new(1, true, 0))
            },
            |i| json!({"op": "c14.fresh", "inner": fresh[i as usize]}),
        );
    }
    let ds = mccore::alpha::dlogs(run.tier, run.seed);
    let nd = ds.len() as u64;
    run.grid(
        Spec { name: "c14.from_compressed.subgroup-points", n: nd * 2, classes: &[], required: &[] },
        |i| {
            let d = &ds[(i / 2) as usize];
            let k = if i % 2 == 0 { comp_case::<G1>(d)? } else { comp_case::<G2>(d)? };
            Ok(Tally::new(k, true, 0))
        },
        |i| json!({"op": "c14.comp", "group": if i % 2 == 0 { "G1" } else { "G2" }, "d": jn(&ds[(i / 2) as usize])}),
    );
    let nt: u64 = run.tier.pick(4, 24);
    run.grid(
        Spec { name: "c14.G2.from_compressed.cofactor-cleared-twist-points", n: nt, classes: &[], required: &[] },
        |i| Ok(Tally::new(g2_cleared_case(i as usize)?, true, 0)),
        |i| json!({"op": "c14.g2cleared", "i": i}),
    );
}
pub fn g2_cleared_case(i: usize) -> Result<u32, Bad> {
    let t = &crate::c08::twist_points(i + 1)[i];
    let p = refmodel::ec_mul(t, &refmodel::consts().twist_cof);
    if p.is_inf() {
        return Ok(0);
    }
    assert!(refmodel::in_g2(&p), "cofactor-cleared twist point is not in G2: model broken");
    for neg in [false, true] {
        let pt = if neg { refmodel::ec_neg(&p) } else { p.clone() };
        let b = refmodel::g2_compressed(&pt).unwrap();
        let got = lib("G2::from_compressed", || G2::from_compressed(&b))?;
        ensure!(got.is_ok(), "compressed-accept", "G2::from_compressed rejects the compressed encoding {} of a point of G2 (cofactor-cleared twist point #{})", refmodel::hex(&b), i);
    }
    Ok(2)
}
pub fn meta(run: &Run) -> Meta {
    Meta {
        rule: "grid: Fq::sqrt on a, a^2, 2a^2 (non-residue), -a^2 for every a of FP(q); Fq2::sqrt on x, x^2, nu*x^2 for every x of FQ2 and on \
               EVERY a + b u with a, b below the bound and on \
               elements of prescribed norm (1, 4, a generic square; conj(z)/z scaled), every (a,0), (0,a) with a and -a from the axis alphabet (residues and non-residues on both sides of q/2, all four classes \
               required non-empty); G1::from_compressed on EVERY x below the bound with both prefixes; compressed encodings of d*G. \
               Oracle: Euler's criterion / norm criterion; Some(s) must square back. Inputs are de-duplicated."
            .into(),
        engine: "sm9mc-grid".into(),
        bounds: json!({"every_x_below": run.tier.pick(512, 1 << 20), "every_fq2_component_below": run.tier.pick(48, 384)}),
        assumptions: vec!["which of the two roots is returned is not constrained".into()],
    }
}
pub fn replay(c: &Value) -> Result<(), Bad> {
    match gs(c, "op").as_str() {
        "c14.fq" => fq_case(&(mccore::gn(c, "a") % q())).map(|_| ()),
        "c14.fq2" => fq2_case(&crate::api::gf2(&c["x"])).map(|_| ()),
        "c14.g1x" => g1x_case(gu(c, "x")).map(|_| ()),
        "c14.fresh" => crate::outcome_fresh(&c["inner"]),
        "c14.g2cleared" => g2_cleared_case(gu(c, "i") as usize).map(|_| ()),
        "c14.comp" => {
            let d = mccore::gn(c, "d");
            if gs(c, "group") == "G1" { comp_case::<G1>(&d) } else { comp_case::<G2>(&d) }.map(|_| ())
        }
        o => panic!("unknown op {}", o),
    }
}

//! sm9mc — bounded-exhaustive exploration of the real sm9_core code against the reference model.
//!
//! usage: sm9mc <C01..C18> [quick|thorough] [--child]
//!        sm9mc replay <file>
//!        sm9mc selftest
//!        sm9mc transcript <quick|thorough> <chunk-dir>

mod api;
mod c06;
mod c07;
mod c08;
mod c12;
mod c14;
mod c16;
#[cfg(feature = "hooks")]
mod c17;
mod c18;
mod c13;
mod fp;
mod grp;
mod pair;
mod sr;

use mccore::{Bad, Meta, Run, Tier};
use serde_json::Value;

fn profile() -> &'static str {
    if cfg!(debug_assertions) {
        "dbg"
    } else {
        "release"
    }
}

/// run the same check in the dbg build (debug assertions + overflow checks) and merge its summary
pub fn run_child_profile(run: &Run, id: &str) {
    run_child_profile_tier(run, id, run.tier)
}
pub fn run_child_profile_tier(run: &Run, id: &str, tier: Tier) {
    if let Some(v) = child_summary(run, id, tier) {
        run.merge_child("dbg", &v);
    }
}
/// run check `id` in the dbg binary and return its summary (None + machinery error on failure)
pub fn child_summary(run: &Run, id: &str, tier: Tier) -> Option<Value> {
    if profile() != "release" {
        return None; // we are the child
    }
    let bin = match std::env::var("SM9MC_DBG_BIN") {
        Ok(b) => b,
        Err(_) => {
            run.machinery_error("SM9MC_DBG_BIN is not set: the dbg-profile half of this check did not run (use ./check)".into());
            return None;
        }
    };
    let out = std::process::Command::new(&bin)
        .arg(id)
        .arg(tier.name())
        .arg("--child")
        .env("VERIF_SEED", run.seed.to_string())
        .stderr(std::process::Stdio::inherit())
        .output();
    match out {
        Ok(o) => {
            let txt = String::from_utf8_lossy(&o.stdout);
            let last = txt.lines().rev().find(|l| l.starts_with('{'));
            match last.and_then(|l| serde_json::from_str::<Value>(l).ok()) {
                Some(v) if o.status.success() => Some(v),
                _ => {
                    run.machinery_error(format!("dbg child of {} failed: status {:?}, stdout tail: {}", id, o.status.code(), mccore::truncate(&txt, 400)));
                    None
                }
            }
        }
        Err(e) => {
            run.machinery_error(format!("cannot start {}: {}", bin, e));
            None
        }
    }
}

fn note_skipped(run: &Run) {
    let mut sk = api::SKIPPED.lock().unwrap().clone();
    sk.sort();
    sk.dedup();
    if !sk.is_empty() {
        eprintln!("[{}] NOTE: {} alphabet member(s) could not be constructed as specified and were skipped (another property's operations misbehave): {}", run.prop, sk.len(), mccore::truncate(&sk.join("; "), 300));
    }
    run.note("alphabet_members_skipped", serde_json::json!(sk));
}

fn model_selftest(full: bool) {
    let res = refmodel::self_test(full);
    let bad: Vec<_> = res.iter().filter(|(_, ok)| !ok).collect();
    if !bad.is_empty() {
        for (n, _) in bad {
            println!("MACHINERY: reference model self-test failed: {}", n);
        }
        std::process::exit(2);
    }
}

#[cfg(not(feature = "hooks"))]
fn no_hooks_run(run: &Run) {
    run.machinery_error("built without the verif hooks: the hook module of /repo does not compile, C17 cannot run".into());
}
#[cfg(not(feature = "hooks"))]
fn no_hooks_meta(_run: &Run) -> Meta {
    Meta::default()
}
type RunFn = fn(&Run);
type MetaFn = fn(&Run) -> Meta;
type ReplayFn = fn(&Value) -> Result<(), Bad>;

fn table(id: &str) -> Option<(RunFn, MetaFn)> {
    Some(match id {
        "C01" => (pair::c01_run, pair::c01_meta),
        "C02" => (pair::c02_run, pair::c02_meta),
        "C03" => (pair::c03_run, pair::c03_meta),
        "C11" => (pair::c11_run, pair::c11_meta),
        "C04" => (grp::c04_run, grp::c04_meta),
        "C05" => (grp::c05_run, grp::c05_meta),
        "C06" => (c06::run, c06::meta),
        "C08" => (c08::c08_run, c08::c08_meta),
        "C09" => (c08::c09_run, c08::c09_meta),
        "C10" => (grp::c10_run, grp::c10_meta),
        "C15" => (grp::c15_run, grp::c15_meta),
        "C16" => (c16::run, c16::meta),
        #[cfg(feature = "hooks")]
        "C17" => (c17::run, c17::meta),
        #[cfg(not(feature = "hooks"))]
        "C17" => (no_hooks_run, no_hooks_meta),
        "C18" => (c18::run, c18::meta),
        "C07" => (c07::run, c07::meta),
        "C12" => (c12::run, c12::meta),
        "C13" => (c13::run, c13::meta),
        "C14" => (c14::run, c14::meta),
        _ => return None,
    })
}
pub(crate) fn replay_table(op: &str) -> Option<ReplayFn> {
    let pre = op.split('.').next().unwrap_or("");
    Some(match pre {
        "c04" | "c05" | "c10" | "c15" => grp::replay,
        "c01" | "c02" | "c03" | "c11" => pair::replay,
        "c06" => c06::replay,
        "c07" => c07::replay,
        "c08" | "c09" => c08::replay,
        "c12" => c12::replay,
        "c13" => c13::replay,
        "c14" => c14::replay,
        "c16" => c16::replay,
        "c18" => c18::replay,
        #[cfg(feature = "hooks")]
        "c17" => c17::replay,
        _ => return None,
    })
}

fn main() {
    let args: Vec<String> = std::env::args().collect();
    if args.len() < 2 {
        eprintln!("usage: sm9mc <C01..C18|replay|selftest> ...");
        std::process::exit(2);
    }
    // library panics are observations; keep stderr quiet
    std::panic::set_hook(Box::new(|_| {}));
    let threads = std::env::var("VERIF_THREADS").ok().and_then(|s| s.parse().ok()).unwrap_or(16usize);
    rayon::ThreadPoolBuilder::new().num_threads(threads).stack_size(16 << 20).build_global().unwrap();
    let seed: u64 = std::env::var("VERIF_SEED").ok().and_then(|s| s.parse().ok()).unwrap_or(1);
    match args[1].as_str() {
        "selftest" => {
            let res = refmodel::self_test(true);
            let mut bad = 0;
            for (n, ok) in &res {
                println!("{} {}", if *ok { "ok  " } else { "FAIL" }, n);
                if !*ok {
                    bad += 1;
                }
            }
            std::process::exit(if bad == 0 { 0 } else { 2 });
        }
        "refdump" => {
            println!("{}", refdump(seed));
            std::process::exit(0);
        }
        "transcript" => {
            c18::transcript_main(seed);
            std::process::exit(0);
        }
        "records" => {
            c18::records_main(seed, &args[2], args[3].parse().unwrap(), args[4].parse().unwrap());
            std::process::exit(0);
        }
        "case" => {
            // one case (JSON on the command line) executed as the first thing this process does; prints the outcome
            let c: Value = serde_json::from_str(args.get(2).expect("case <json>")).expect("case json");
            println!("OUTCOME {}", outcome_here(&c));
            std::process::exit(0);
        }
        "replay" => {
            let path = args.get(2).expect("replay <file>");
            std::process::exit(replay(path));
        }
        id => {
            let tier = match args.get(2).map(|s| s.as_str()).or(std::env::var("VERIF_TIER").ok().as_deref().map(|_| "")) {
                Some("thorough") => Tier::Thorough,
                Some("quick") => Tier::Quick,
                _ => match std::env::var("VERIF_TIER").as_deref() {
                    Ok("thorough") => Tier::Thorough,
                    _ => Tier::Quick,
                },
            };
            let child = args.iter().any(|a| a == "--child");
            let (runf, metaf) = match table(id) {
                Some(t) => t,
                None => {
                    println!("MACHINERY: unknown property {}", id);
                    std::process::exit(2);
                }
            };
            model_selftest(tier == Tier::Thorough && !child);
            let mut run = Run::new(id, tier, seed, profile());
            run.child = child;
            let meta = metaf(&run);
            *mccore::FINISH_META.lock().unwrap() = Some(meta.clone());
            if child {
                // the parent merges this summary; nothing else may go to stdout
                runf(&run);
                note_skipped(&run);
                println!("{}", run.summary_json());
                std::process::exit(0);
            }
            runf(&run);
            note_skipped(&run);
            std::process::exit(run.finish(&meta));
        }
    }
}

/// a dump of reference-model results for the independent python cross-check (py/xcheck.py)
fn refdump(seed: u64) -> Value {
    use refmodel::{consts, ec_mul, q, r, F12, F2, Fld, Pt, N};
    use serde_json::json;
    let hx = |x: &N| format!("{:x}", x);
    let c = consts();
    let p = q();
    let mut vals = mccore::alpha::special(p);
    vals.extend(mccore::alpha::generic(p, seed, 0xd0, 12));
    let mut fqs = vec![];
    for (i, a) in vals.iter().enumerate() {
        let b = &vals[(i * 7 + 3) % vals.len()];
        fqs.push(json!({"a": hx(a), "b": hx(b), "mul": hx(&refmodel::mulm(a, b, p)), "add": hx(&refmodel::addm(a, b, p)), "sub": hx(&refmodel::subm(a, b, p)),
            "inv": refmodel::invm(a, p).map(|v| hx(&v)), "is_square": refmodel::is_square_mod(a, p), "sqrt": refmodel::sqrt_mod(a, p).map(|v| hx(&v))}));
    }
    let j2 = |x: &F2| json!([hx(&x.a), hx(&x.b)]);
    let mut f2s = vec![];
    for i in 0..24 {
        let x = F2 { a: vals[(i * 5) % vals.len()].clone(), b: vals[(i * 3 + 1) % vals.len()].clone() };
        let y = F2 { a: vals[(i * 11 + 2) % vals.len()].clone(), b: vals[(i + 7) % vals.len()].clone() };
        f2s.push(json!({"x": j2(&x), "y": j2(&y), "mul": j2(&x.mul(&y)), "inv": x.inv().map(|v| j2(&v)), "is_square": x.is_square(), "sqrt": x.sqrt().map(|v| j2(&v))}));
    }
    let j12 = |x: &F12| json!(x.0.iter().map(|v| hx(v)).collect::<Vec<_>>());
    let gens = mccore::alpha::generic(p, seed, 0xd12, 48);
    let mut f12s = vec![];
    for i in 0..3 {
        let a = F12::from_coeffs(&gens[i * 12..i * 12 + 12]);
        let b = F12::from_coeffs(&gens[((i + 1) % 4) * 12..((i + 1) % 4) * 12 + 12]);
        f12s.push(json!({"a": j12(&a), "b": j12(&b), "mul": j12(&a.mul(&b)), "inv": j12(&a.inv().unwrap()), "frob1": j12(&a.frobenius(1)), "bytes": refmodel::hex(&a.to_bytes())}));
    }
    let jp1 = |pt: &Pt<refmodel::Fq>| match pt { Pt::Inf => Value::Null, Pt::Aff(x, y) => json!([hx(&x.0), hx(&y.0)]) };
    let jp2 = |pt: &Pt<F2>| match pt { Pt::Inf => Value::Null, Pt::Aff(x, y) => json!([j2(x), j2(y)]) };
    let ks = mccore::alpha::scalars(mccore::Tier::Quick, seed);
    let mults: Vec<Value> = ks.iter().map(|k| json!({"k": hx(k), "g1": jp1(&ec_mul(&c.g1, k)), "g2": jp2(&ec_mul(&c.g2, k))})).collect();
    let mut prs = vec![];
    for (a, b) in [(N::from(1u8), N::from(1u8)), (ks[4].clone(), ks[8].clone()), (ks[ks.len() - 1].clone(), N::from(3u8))] {
        let v = refmodel::pairing(&ec_mul(&c.g1, &a), &ec_mul(&c.g2, &b));
        prs.push(json!({"a": hx(&a), "b": hx(&b), "bytes": refmodel::hex(&v.to_bytes())}));
    }
    json!({"q": hx(p), "r": hx(r()), "fq": fqs, "f2": f2s, "f12": f12s, "g1": jp1(&c.g1), "g2": jp2(&c.g2), "mults": mults, "pairings": prs})
}

/// outcome of one case executed in a FRESH process (process-wide state in its initial condition)
pub(crate) fn outcome_fresh(case: &Value) -> Result<(), Bad> {
    let exe = std::env::current_exe().map_err(|e| Bad { class: "machinery".into(), msg: format!("current_exe: {}", e) })?;
    let out = std::process::Command::new(exe).arg("case").arg(case.to_string()).output().map_err(|e| Bad { class: "machinery".into(), msg: format!("spawn: {}", e) })?;
    let txt = String::from_utf8_lossy(&out.stdout).to_string();
    let line = txt.lines().find_map(|l| l.strip_prefix("OUTCOME ")).map(|s| s.to_string());
    match line.as_deref() {
        Some("holds") => Ok(()),
        Some(o) if o.contains('|') => {
            let (c, m) = o.split_once('|').unwrap();
            Err(Bad { class: c.to_string(), msg: format!("as the first such call of a fresh process: {}", m) })
        }
        Some(o) => Err(Bad { class: "machinery".into(), msg: format!("fresh process reported '{}'", o) }),
        None => Err(Bad { class: "abnormal-exit".into(), msg: format!("fresh process ended without an outcome (status {:?}) for case {}", out.status.code(), case) }),
    }
}
/// outcome of one case re-executed in this process, under the case timeout: "holds", "<class>|<msg>"
pub(crate) fn outcome_here(case: &Value) -> String {
    let op = case["op"].as_str().unwrap_or("").to_string();
    let f = match replay_table(&op) {
        Some(f) => f,
        None => return "no-handler".into(),
    };
    let timeout = std::time::Duration::from_secs(std::env::var("VERIF_CASE_TIMEOUT_S").ok().and_then(|s| s.parse().ok()).unwrap_or(30));
    let (tx, rx) = std::sync::mpsc::channel();
    let c = case.clone();
    std::thread::Builder::new()
        .stack_size(16 << 20)
        .spawn(move || {
            let r = std::panic::catch_unwind(std::panic::AssertUnwindSafe(|| f(&c)));
            let _ = tx.send(match r {
                Ok(Ok(())) => "holds".to_string(),
                Ok(Err(b)) => format!("{}|{}", b.class, b.msg),
                Err(_) => "harness-panic".to_string(),
            });
        })
        .unwrap();
    rx.recv_timeout(timeout).unwrap_or_else(|_| "non-termination|".to_string())
}

/// re-execute one recorded case on the real code, without any explorer; twice, with identical outcome
fn replay(path: &str) -> i32 {
    let txt = match std::fs::read_to_string(path) {
        Ok(t) => t,
        Err(e) => {
            println!("MACHINERY: cannot read {}: {}", path, e);
            return 2;
        }
    };
    let v: Value = match serde_json::from_str(&txt) {
        Ok(v) => v,
        Err(e) => {
            println!("MACHINERY: {} does not parse: {}", path, e);
            return 2;
        }
    };
    let case = v["case"].clone();
    let prop = v["property"].as_str().unwrap_or("?").to_string();
    let op = case["op"].as_str().unwrap_or("").to_string();
    let f = match replay_table(&op) {
        Some(f) => f,
        None => {
            println!("MACHINERY: no replay handler for op '{}'", op);
            return 2;
        }
    };
    let want_profile = case["profile"].as_str().map(|s| s.to_string());
    if let Some(wp) = &want_profile {
        if wp != profile() {
            println!("NOTE: this case was recorded in the '{}' profile; this binary is '{}'", wp, profile());
        }
    }
    let timeout = std::time::Duration::from_secs(
        std::env::var("VERIF_CASE_TIMEOUT_S").ok().and_then(|s| s.parse().ok()).unwrap_or(30),
    );
    let once = |case: Value| -> Result<Result<(), Bad>, String> {
        let (tx, rx) = std::sync::mpsc::channel();
        std::thread::Builder::new()
            .stack_size(16 << 20)
            .spawn(move || {
                let r = std::panic::catch_unwind(std::panic::AssertUnwindSafe(|| f(&case)));
                let _ = tx.send(r.map_err(|p| mccore::panic_msg(&p)));
            })
            .unwrap();
        match rx.recv_timeout(timeout) {
            Ok(Ok(r)) => Ok(r),
            Ok(Err(p)) => Err(format!("harness panic: {}", p)),
            Err(_) => Ok(Err(Bad { class: "non-termination".into(), msg: format!("no return within {} s", timeout.as_secs()) })),
        }
    };
    let r1 = once(case.clone());
    let r2 = once(case.clone());
    let show = |r: &Result<Result<(), Bad>, String>| match r {
        Ok(Ok(())) => "holds".to_string(),
        Ok(Err(b)) => format!("violates [{}] {}", b.class, b.msg),
        Err(m) => format!("machinery: {}", m),
    };
    if show(&r1) != show(&r2) {
        println!("MACHINERY: replay is not deterministic:\n  1: {}\n  2: {}", show(&r1), show(&r2));
        return 2;
    }
    match r1 {
        Ok(Ok(())) => {
            println!("replay: property {} holds on this case ({})", prop, op);
            0
        }
        Ok(Err(b)) => {
            println!("VIOLATION property={} replay={}", prop, path);
            println!("  class={} : {}", b.class, mccore::truncate(&b.msg, 1000));
            1
        }
        Err(m) => {
            println!("MACHINERY: {}", m);
            2
        }
    }
}

fn main() {}

//! C16 — any history of group operations behaves like arithmetic in Z_r: explicit-state BFS over
//! register machines (A, B : G ; s : Fr) for G1 and G2, plus pairings of all reached values.

use crate::api::{alpha, fr, frv, lib, pt_json, ref_mul, GroupApi, Rep, Val};
use crate::pair::{expect_pairing, Ep};
use mccore::{ensure, jn, Bad, Meta, Run, Spec, Tally};
use num_traits::{One, Zero};
use refmodel::{addm, invm, mulm, n, negm, r, subm, Fmt, N};
use serde_json::{json, Value};
use sm9_core::{Fr, G1, G2};
use std::collections::{BTreeMap, HashMap};
use std::sync::Mutex;

#[derive(Clone, Debug, PartialEq)]
pub enum Op {
    AddAB,
    SubAB,
    AddBA,
    NegA,
    MulAs,
    MulsA,
    MulAk(N),
    Normalize,
    AffineRt,
    Rt(Fmt),
    Swap,
    SetG,
    SetO,
    SetS(N),
    DoubleS,
    NegS,
    InvS,
}
impl Op {
    pub fn label(&self) -> String {
        match self {
            Op::AddAB => "A=A+B".into(),
            Op::SubAB => "A=A-B".into(),
            Op::AddBA => "B=B+A".into(),
            Op::NegA => "A=-A".into(),
            Op::MulAs => "A=A*s".into(),
            Op::MulsA => "A=s*A".into(),
            Op::MulAk(k) => format!("A=A*const:{:x}", k),
            Op::Normalize => "A.normalize()".into(),
            Op::AffineRt => "A=from(AffineG::from_jacobian(A))".into(),
            Op::Rt(f) => format!("A=decode(encode(A)):{}", f.name()),
            Op::Swap => "swap(A,B)".into(),
            Op::SetG => "A=G".into(),
            Op::SetO => "A=O".into(),
            Op::SetS(k) => format!("s=const:{:x}", k),
            Op::DoubleS => "s=s+s".into(),
            Op::NegS => "s=-s".into(),
            Op::InvS => "s=inverse(s)".into(),
        }
    }
    pub fn parse(l: &str) -> Op {
        match l {
            "A=A+B" => Op::AddAB,
            "A=A-B" => Op::SubAB,
            "B=B+A" => Op::AddBA,
            "A=-A" => Op::NegA,
            "A=A*s" => Op::MulAs,
            "A=s*A" => Op::MulsA,
            "A.normalize()" => Op::Normalize,
            "A=from(AffineG::from_jacobian(A))" => Op::AffineRt,
            "swap(A,B)" => Op::Swap,
            "A=G" => Op::SetG,
            "A=O" => Op::SetO,
            "s=s+s" => Op::DoubleS,
            "s=-s" => Op::NegS,
            "s=inverse(s)" => Op::InvS,
            _ => {
                if let Some(k) = l.strip_prefix("A=A*const:") {
                    Op::MulAk(refmodel::nhex(k))
                } else if let Some(k) = l.strip_prefix("s=const:") {
                    Op::SetS(refmodel::nhex(k))
                } else if let Some(f) = l.strip_prefix("A=decode(encode(A)):") {
                    Op::Rt(match f {
                        "raw" => Fmt::Raw,
                        "uncompressed" => Fmt::Uncompressed,
                        _ => Fmt::Compressed,
                    })
                } else {
                    panic!("unknown op label {}", l)
                }
            }
        }
    }
}
pub fn menu() -> Vec<Op> {
    let ks = [N::zero(), N::one(), n(2), r() - n(1)];
    let mut v = vec![Op::AddAB, Op::SubAB, Op::AddBA, Op::NegA, Op::MulAs, Op::MulsA];
    for k in &ks {
        v.push(Op::MulAk(k.clone()));
    }
    v.extend([Op::Normalize, Op::AffineRt, Op::Rt(Fmt::Raw), Op::Rt(Fmt::Uncompressed), Op::Rt(Fmt::Compressed), Op::Swap, Op::SetG, Op::SetO]);
    for k in &ks {
        v.push(Op::SetS(k.clone()));
    }
    v.extend([Op::DoubleS, Op::NegS, Op::InvS]);
    v
}

#[derive(Clone)]
pub struct St<G: GroupApi> {
    pub a: G,
    pub b: G,
    pub s: Fr,
    pub da: N,
    pub db: N,
    pub ms: N,
}
pub fn init<G: GroupApi>() -> St<G> {
    St { a: G::one(), b: G::zero(), s: Fr::one(), da: N::one(), db: N::zero(), ms: N::one() }
}
fn coord_bytes<G: GroupApi>(g: &G) -> Vec<u8> {
    let (x, y, z) = g.coords();
    let mut v = G::rf_bytes(&x);
    v.extend(G::rf_bytes(&y));
    v.extend(G::rf_bytes(&z));
    v
}
pub fn key<G: GroupApi>(s: &St<G>) -> Vec<u8> {
    let mut k = coord_bytes(&s.a);
    k.extend(coord_bytes(&s.b));
    k.extend(s.s.to_slice());
    // the model component belongs to the state: a concrete state reached with a different tracked
    // discrete log is a different state (and its invariant fails), it must not be merged away
    for m in [&s.da, &s.db, &s.ms] {
        k.extend(refmodel::be32(m));
    }
    k
}
pub fn step<G: GroupApi>(s: &St<G>, op: &Op) -> Option<Result<St<G>, Bad>> {
    // model-side enabledness: encoding the identity is a documented unwrap panic, outside the property
    match op {
        Op::AffineRt | Op::Rt(_) if s.da.is_zero() => return None,
        Op::InvS if s.ms.is_zero() => return None,
        _ => {}
    }
    let mut t = s.clone();
    let rr = r();
    let res: Result<(), Bad> = (|| {
        match op {
            Op::AddAB => {
                t.a = lib("A+B", || s.a + s.b)?;
                t.da = addm(&s.da, &s.db, rr);
            }
            Op::SubAB => {
                t.a = lib("A-B", || s.a - s.b)?;
                t.da = subm(&s.da, &s.db, rr);
            }
            Op::AddBA => {
                t.b = lib("B+A", || s.b + s.a)?;
                t.db = addm(&s.db, &s.da, rr);
            }
            Op::NegA => {
                t.a = lib("-A", || -s.a)?;
                t.da = negm(&s.da, rr);
            }
            Op::MulAs => {
                t.a = lib("A*s", || s.a * s.s)?;
                t.da = mulm(&s.da, &s.ms, rr);
            }
            Op::MulsA => {
                t.a = lib("s*A", || G::lmul(s.s, s.a))?;
                t.da = mulm(&s.da, &s.ms, rr);
            }
            Op::MulAk(k) => {
                t.a = lib("A*k", || s.a * fr(k))?;
                t.da = mulm(&s.da, k, rr);
            }
            Op::Normalize => {
                lib("normalize", || t.a.normalize())?;
            }
            Op::AffineRt => match lib("affine round trip", || s.a.affine_roundtrip())? {
                Some(g) => t.a = g,
                None => return mccore::bad("affine", "AffineG::from_jacobian of a non-identity value is None".into()),
            },
            Op::Rt(f) => {
                let b = lib("encode", || s.a.encode(*f))?;
                match lib("decode", || G::decode(*f, &b))? {
                    Ok(g) => t.a = g,
                    Err(e) => return mccore::bad("roundtrip", format!("{} decoder rejects the library's own {} encoding: {}", G::NAME, f.name(), e)),
                }
            }
            Op::Swap => {
                std::mem::swap(&mut t.a, &mut t.b);
                std::mem::swap(&mut t.da, &mut t.db);
            }
            Op::SetG => {
                t.a = G::one();
                t.da = N::one();
            }
            Op::SetO => {
                t.a = G::zero();
                t.da = N::zero();
            }
            Op::SetS(k) => {
                t.s = fr(k);
                t.ms = k.clone();
            }
            Op::DoubleS => {
                t.s = lib("s+s", || s.s + s.s)?;
                t.ms = addm(&s.ms, &s.ms, rr);
            }
            Op::NegS => {
                t.s = lib("-s", || -s.s)?;
                t.ms = negm(&s.ms, rr);
            }
            Op::InvS => match lib("inverse", || s.s.inverse())? {
                Some(v) => {
                    t.s = v;
                    t.ms = invm(&s.ms, rr).unwrap();
                }
                None => return mccore::bad("inverse-none", "inverse of a non-zero scalar is None".into()),
            },
        }
        Ok(())
    })();
    Some(res.map(|_| t))
}

/// reference encodings of d*G, cached
fn ref_encodings<G: GroupApi>(d: &N) -> [Vec<u8>; 3] {
    static C1: Mutex<Option<HashMap<(String, N), [Vec<u8>; 3]>>> = Mutex::new(None);
    let mut g = C1.lock().unwrap();
    let m = g.get_or_insert_with(HashMap::new);
    let k = (G::NAME.to_string(), d.clone());
    if let Some(v) = m.get(&k) {
        return v.clone();
    }
    drop(g);
    let p = ref_mul::<G>(d);
    let v = [G::ref_encode(&p, Fmt::Raw).unwrap(), G::ref_encode(&p, Fmt::Uncompressed).unwrap(), G::ref_encode(&p, Fmt::Compressed).unwrap()];
    C1.lock().unwrap().get_or_insert_with(HashMap::new).insert(k, v.clone());
    v
}
pub fn invariant<G: GroupApi>(s: &St<G>) -> Result<(), Bad> {
    for (nm, v, d) in [("A", &s.a, &s.da), ("B", &s.b, &s.db)] {
        let want = ref_mul::<G>(d);
        let got = alpha::<G>(v);
        ensure!(got == want, "wrong-point", "{} register {} denotes {} but the tracked discrete log {:x} gives {}", G::NAME, nm, pt_json::<G>(&got), d, pt_json::<G>(&want));
        let iz = lib("is_zero", || v.is_zero())?;
        ensure!(iz == d.is_zero(), "is_zero", "{} register {}: is_zero = {} but the discrete log is {:x}", G::NAME, nm, iz, d);
        if !d.is_zero() {
            // observationally identical to a freshly computed value of the same element
            let re = ref_encodings::<G>(d);
            for (i, f) in Fmt::ALL.iter().enumerate() {
                let e = lib("encode", || v.encode(*f))?;
                ensure!(e == re[i], "encoding", "{} register {}: {} encoding {} differs from that of a fresh {:x}*G: {}", G::NAME, nm, f.name(), refmodel::hex(&e), d, refmodel::hex(&re[i]));
            }
        }
    }
    let same = s.da == s.db;
    let e1 = lib("A==B", || s.a == s.b)?;
    let e2 = lib("B==A", || s.b == s.a)?;
    ensure!(e1 == same && e2 == same, "eq", "{} (A == B) = {}, (B == A) = {} but discrete logs {:x} vs {:x}", G::NAME, e1, e2, s.da, s.db);
    ensure!(frv(&s.s) == s.ms, "scalar", "scalar register encodes {:x} but the model value is {:x}", frv(&s.s), s.ms);
    Ok(())
}

pub struct Reached<G: GroupApi> {
    /// distinct concrete values of register A with the depth at which they first appeared
    pub vals: Vec<(Val<G>, usize, Vec<String>)>,
}
fn machine<G: GroupApi>(run: &Run, depth: usize, pair_depth: usize) -> Reached<G> {
    let ops = menu();
    let labels: Vec<String> = ops.iter().map(|o| o.label()).collect();
    let name = format!("c16.{}", G::NAME);
    let out = run.bfs(&name, &labels, vec![init::<G>()], depth, |s| key(s), |s, i| step::<G>(s, &ops[i]), |s| invariant::<G>(s));
    // representation spread
    let mut spread: BTreeMap<N, std::collections::HashSet<Vec<u8>>> = BTreeMap::new();
    let mut seen: HashMap<Vec<u8>, usize> = HashMap::new();
    let mut vals = vec![];
    for (i, s) in out.states.iter().enumerate() {
        let cb = coord_bytes(&s.a);
        spread.entry(s.da.clone()).or_default().insert(cb.clone());
        if !seen.contains_key(&cb) {
            seen.insert(cb, i);
            let d = out.depth[i] as usize;
            if d <= pair_depth {
                let (_, p) = out.path(i);
                vals.push((Val::<G> { d: s.da.clone(), rep: Rep::LibSub, v: s.a }, d, p));
            }
        }
    }
    let max_spread = spread.values().map(|s| s.len()).max().unwrap_or(0);
    run.note(
        &format!("{}_summary", name),
        json!({"abstract_values_of_A": spread.len(), "distinct_concrete_values_of_A": seen.len(), "max_representatives_of_one_element": max_spread,
               "depth_completed": out.completed_depth, "ops": labels.len(), "values_used_for_pairings": vals.len()}),
    );
    if max_spread < 2 && out.completed_depth >= 2 {
        // not an error: a library that normalises eagerly has exactly one representative per element; the evidence
        // records it so that a reader can see that the representation dimension was not exercised by histories
        run.note(&format!("{}_single_representative_per_element", name), json!(true));
    }
    Reached { vals }
}

/// cumulative number of states of the machine up to `depth`, from the bfs explorer's per-depth record
fn states_up_to<G: GroupApi>(run: &Run, depth: usize) -> Option<u64> {
    let v = run.summary_json();
    let d = v["drivers"].as_array()?.iter().find(|d| d["driver"] == format!("c16.{}", G::NAME))?.clone();
    let mut total = 0;
    for e in d["per_depth"].as_array()? {
        if e["depth"].as_u64()? as usize <= depth {
            total += e["new_states"].as_u64()?;
        }
    }
    Some(total)
}
fn run_path<G: GroupApi>(path: &[String]) -> Result<St<G>, Bad> {
    let mut s = init::<G>();
    invariant::<G>(&s)?;
    for l in path {
        match step::<G>(&s, &Op::parse(l)) {
            None => panic!("replay: op {} is disabled by the model", l),
            Some(rr) => s = rr?,
        }
        invariant::<G>(&s)?;
    }
    Ok(s)
}

pub fn run(run: &Run) {
    let (d1, d2, dp) = match run.tier {
        mccore::Tier::Quick => (6usize, 6usize, 3usize),
        mccore::Tier::Thorough => (9, 8, 4),
    };
    let (d1, d2, dp) = (
        std::env::var("C16_DEPTH_G1").ok().and_then(|s| s.parse().ok()).unwrap_or(d1),
        std::env::var("C16_DEPTH_G2").ok().and_then(|s| s.parse().ok()).unwrap_or(d2),
        std::env::var("C16_DEPTH_PAIR").ok().and_then(|s| s.parse().ok()).unwrap_or(dp),
    );
    let r1 = machine::<G1>(run, d1, dp);
    let r2 = machine::<G2>(run, d2, dp);
    // engine cross-check: the same machine under stateright's BFS checker
    if run.fail_count() == 0 {
        let sd = run.tier.pick(5usize, 6).min(d1);
        let t0 = std::time::Instant::now();
        let (n, violated) = crate::sr::explore::<G1>(sd);
        let mine = states_up_to::<G1>(run, sd);
        run.note("stateright_crosscheck", json!({"machine": "c16.G1", "depth": sd, "stateright_unique_states": n, "bfs_states": mine, "wall_s": t0.elapsed().as_secs_f64()}));
        if Some(n as u64) != mine {
            run.machinery_error(format!("engine cross-check: stateright finds {} unique states at depth {}, the bfs explorer {:?}", n, sd, mine));
        }
        if violated {
            run.machinery_error("engine cross-check: stateright reports an invariant violation the bfs explorer did not".into());
        }
    }
    long_programs::<G1>(run);
    long_programs::<G2>(run);
    if run.fail_count() > 0 {
        // histories already break the property; pairing the reached values adds nothing reliable
        return;
    }
    // pairing observation: every reached G1 value x every reached G2 value x every entry point
    let (n1, n2) = (r1.vals.len() as u64, r2.vals.len() as u64);
    run.grid(
        Spec { name: "c16.pairings-of-reached-values", n: n1 * n2 * 3, classes: &["identity-operand", "non-identity"], required: &["identity-operand", "non-identity"] },
        |i| {
            let ix = mccore::unrank(i, &[n1, n2, 3]);
            let (a, b) = (&r1.vals[ix[0]].0, &r2.vals[ix[1]].0);
            expect_pairing(Ep::ALL[ix[2]], a, b).map_err(|mut e| {
                e.msg = format!("P reached by {:?}, Q reached by {:?}: {}", r1.vals[ix[0]].2, r2.vals[ix[1]].2, e.msg);
                e
            })?;
            let z = a.d.is_zero() || b.d.is_zero();
            Ok(Tally::new(1, !z, if z { 1 } else { 2 }))
        },
        |i| {
            let ix = mccore::unrank(i, &[n1, n2, 3]);
            json!({"op": "c16.pairing", "pathP": r1.vals[ix[0]].2, "pathQ": r2.vals[ix[1]].2, "ep": Ep::ALL[ix[2]].name()})
        },
    );
}
/// Long histories: one seeded base program of length L over the menu extended with arbitrary (generic) scalars, and
/// EVERY program that deviates from it in at most one position (each position replaced by each other operation).
/// Deviation-bounded rather than depth-bounded: the executions are long, the bound is on departures from the base.
fn long_programs<G: GroupApi>(run: &Run) {
    let mut ops = menu();
    for g in mccore::alpha::generic(r(), run.seed, 0x1060, 3) {
        ops.push(Op::MulAk(g.clone()));
        ops.push(Op::SetS(g));
    }
    // and the whole boundary scalar alphabet (long runs of ones / zeros, lambda, powers of two, ...)
    for k in mccore::alpha::scalars(mccore::Tier::Quick, run.seed) {
        if !ops.contains(&Op::MulAk(k.clone())) {
            ops.push(Op::MulAk(k.clone()));
            ops.push(Op::SetS(k));
        }
    }
    let len: usize = run.tier.pick(24, 64);
    let nops = ops.len();
    let mut sm = mccore::alpha::SplitMix(run.seed ^ 0x10_60_9);
    let base: Vec<usize> = (0..len).map(|_| (sm.next() % nops as u64) as usize).collect();
    // case 0 = the base program; case 1 + pos*(nops) + alt = position `pos` replaced by operation `alt`
    let ncases = 1 + (len * nops) as u64;
    let prog = |i: u64| -> Vec<usize> {
        let mut p = base.clone();
        if i > 0 {
            let j = (i - 1) as usize;
            p[j / nops] = j % nops;
        }
        p
    };
    let exec = |p: &[usize]| -> Result<u32, Bad> {
        let mut s = init::<G>();
        invariant::<G>(&s)?;
        let mut k = 0;
        for (pos, &o) in p.iter().enumerate() {
            match step::<G>(&s, &ops[o]) {
                None => {} // disabled by the model in this state: skipped
                Some(rr) => {
                    s = rr.map_err(|mut e| {
                        e.msg = format!("at step {} ({}): {}", pos + 1, ops[o].label(), e.msg);
                        e
                    })?;
                    invariant::<G>(&s).map_err(|mut e| {
                        e.msg = format!("after step {} ({}): {}", pos + 1, ops[o].label(), e.msg);
                        e
                    })?;
                    k += 1;
                }
            }
        }
        Ok(k)
    };
    run.grid(
        Spec { name: &format!("c16.{}.long-program-deviations", G::NAME), n: ncases, classes: &[], required: &[] },
        |i| Ok(Tally::new(exec(&prog(i))?, true, 0)),
        |i| json!({"op": format!("c16.{}.program", G::NAME), "labels": prog(i).iter().map(|&o| ops[o].label()).collect::<Vec<_>>()}),
    );
}
pub fn meta(run: &Run) -> Meta {
    Meta {
        rule: "bfs: register machines (A, B : G ; s : Fr) for G1 and for G2 from (G, O, 1) over 25 operations (add, sub, neg, scalar \
               multiplication by s and by the constants {0,1,2,r-1} on either side, normalize, affine round trip, encode/decode in three \
               formats, swap, reset, scalar updates); exact-state de-duplication on all coordinates; in every state: denoted points equal the \
               reference multiples of the tracked discrete logs, is_zero, == in both orders, all three encodings equal those of a fresh \
               value, scalar register equals the model. Then every (reached G1 value) x (reached G2 value) x entry point up to the pairing \
               depth must give g^(dd'). A non-root state = one distinct non-trivial history (its shortest operation sequence). \
               Long histories: one seeded base program of length L with arbitrary scalars and EVERY single-position deviation from it."
            .into(),
        engine: "sm9mc-bfs + sm9mc-grid".into(),
        bounds: json!({"depth_G1": run.tier.pick(6, 9), "depth_G2": run.tier.pick(6, 8), "pairing_depth": run.tier.pick(3, 4)}),
        assumptions: vec!["operations that encode the identity are disabled by the model (documented unwrap panic, outside the property)".into()],
    }
}
pub fn replay(c: &Value) -> Result<(), Bad> {
    let op = c["op"].as_str().unwrap();
    let strs = |k: &str| -> Vec<String> { c[k].as_array().unwrap().iter().map(|x| x.as_str().unwrap().to_string()).collect() };
    match op {
        "c16.G1.path" => run_path::<G1>(&strs("path")).map(|_| ()),
        "c16.G2.path" => run_path::<G2>(&strs("path")).map(|_| ()),
        "c16.G1.program" | "c16.G2.program" => {
            let labels = strs("labels");
            fn go<G: GroupApi>(labels: &[String]) -> Result<(), Bad> {
                let mut s = init::<G>();
                invariant::<G>(&s)?;
                for l in labels {
                    if let Some(rr) = step::<G>(&s, &Op::parse(l)) {
                        s = rr?;
                        invariant::<G>(&s)?;
                    }
                }
                Ok(())
            }
            if op == "c16.G1.program" { go::<G1>(&labels) } else { go::<G2>(&labels) }
        }
        "c16.pairing" => {
            let a = run_path::<G1>(&strs("pathP"))?;
            let b = run_path::<G2>(&strs("pathQ"))?;
            let va = Val::<G1> { d: a.da.clone(), rep: Rep::LibSub, v: a.a };
            let vb = Val::<G2> { d: b.da.clone(), rep: Rep::LibSub, v: b.a };
            expect_pairing(Ep::parse(c["ep"].as_str().unwrap()), &va, &vb).map(|_| ())
        }
        o => panic!("unknown op {}", o),
    }
}
#[allow(dead_code)]
fn unused() {
    let _ = jn(&N::one());
}

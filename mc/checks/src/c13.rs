//! C13 — byte, decimal and hash conversions to field elements compute n mod p.

use crate::api::lib;
use crate::fp::FpApi;
use mccore::alpha::{dedup, fp_small, generic, special, two, SplitMix};
use mccore::{ensure, gb, gn, gs, gu, jb, jn, Bad, Meta, Run, Spec, Tally};
use num_traits::{One, Zero};
use refmodel::{be, be32, from_be, n, r, N};
use serde_json::{json, Value};
use sm9_core::{Fq, Fr};

fn expect_val<F: FpApi>(what: &str, got: Option<F>, want: Option<&N>, input: &[u8]) -> Result<(), Bad> {
    match (got, want) {
        (None, None) => Ok(()),
        (Some(g), Some(w)) => {
            let gbytes = lib("to_slice", || g.bytes())?;
            ensure!(
                gbytes == be32(w),
                "wrong-value",
                "{} {}({} bytes: {}) = {} , expected {:x}",
                F::NAME,
                what,
                input.len(),
                mccore::truncate(&refmodel::hex(input), 150),
                refmodel::hex(&gbytes),
                w
            );
            Ok(())
        }
        (g, w) => mccore::bad(
            "accept-reject",
            format!(
                "{} {}({} bytes: {}): library is_some={} but the model says is_some={}",
                F::NAME,
                what,
                input.len(),
                mccore::truncate(&refmodel::hex(input), 150),
                g.is_some(),
                w.is_some()
            ),
        ),
    }
}

pub fn bytes_case<F: FpApi>(b: &[u8]) -> Result<u32, Bad> {
    let p = F::modulus();
    let want = if (1..=64).contains(&b.len()) { Some(from_be(b) % p) } else { None };
    let got = lib("from_slice", || F::from_slice_(b))?;
    expect_val::<F>("from_slice", got, want.as_ref(), b)?;
    let got2 = lib("try_from", || F::try_from_(b))?;
    expect_val::<F>("TryFrom<&[u8]>", got2.ok(), want.as_ref(), b)?;
    let mut k = 2;
    if b.len() == 64 {
        let mut a = [0u8; 64];
        a.copy_from_slice(b);
        let got3 = lib("interpret", || F::interpret_(&a))?;
        expect_val::<F>("interpret", Some(got3), want.as_ref(), b)?;
        k += 1;
    }
    if let Some(g) = got {
        // the result is canonical: it survives a round trip and equals a freshly built element
        let back = lib("from_slice", || F::from_slice_(&g.bytes()))?;
        ensure!(back == Some(g), "roundtrip", "{} from_slice(to_slice(x)) != x for x = from_slice({})", F::NAME, refmodel::hex(b));
        k += 1;
    }
    Ok(k)
}
pub fn hash_case(b: &[u8]) -> Result<u32, Bad> {
    let rm1 = r() - n(1);
    let want = if b.len() <= 64 { Some(from_be(b) % &rm1 + n(1)) } else { None };
    let got = lib("from_hash", || Fr::from_hash(b))?;
    expect_val::<Fr>("from_hash", got, want.as_ref(), b)?;
    if let Some(g) = got {
        let v = from_be(&g.to_slice());
        ensure!(v >= N::one() && v <= rm1, "range", "from_hash result {:x} is outside [1, r-1]", v);
        ensure!(!g.is_zero(), "range", "from_hash returned zero");
    }
    Ok(1)
}
pub fn str_case<F: FpApi>(s: &str) -> Result<u32, Bad> {
    let p = F::modulus();
    let got = lib("from_str", || F::from_str_(s))?;
    if s.is_empty() {
        // not a digit string, contains no other character: both Ok(0) and Err are accepted
        if let Ok(g) = got {
            ensure!(g.is_zero_(), "wrong-value", "{} from_str(\"\") = non-zero", F::NAME);
        }
        return Ok(1);
    }
    let all_digits = s.chars().all(|c| c.is_ascii_digit());
    if all_digits {
        let want = N::parse_bytes(s.as_bytes(), 10).unwrap() % p;
        match got {
            Ok(g) => {
                let gbytes = g.bytes();
                ensure!(
                    gbytes == be32(&want),
                    "wrong-value",
                    "{} from_str({:?}) = {} , expected {:x}",
                    F::NAME,
                    mccore::truncate(s, 170),
                    refmodel::hex(&gbytes),
                    want
                );
            }
            Err(e) => {
                return mccore::bad("accept-reject", format!("{} from_str({:?}) = Err({}) for a digit string", F::NAME, mccore::truncate(s, 170), e))
            }
        }
    } else {
        ensure!(got.is_err(), "accept-reject", "{} from_str({:?}) is Ok although a non-digit character occurs", F::NAME, mccore::truncate(s, 170));
    }
    Ok(1)
}
pub fn bigendian_case(x: &N, len: usize) -> Result<u32, Bad> {
    let lx = Fq::from_n(x);
    let mut buf = vec![0xA5u8; len];
    let res = lib("to_big_endian", || lx.to_big_endian(&mut buf))?;
    if len == 32 {
        ensure!(res.is_ok(), "accept-reject", "Fq::to_big_endian into a 32-byte buffer failed for {:x}", x);
        ensure!(buf == be(x, 32), "wrong-value", "Fq::to_big_endian({:x}) wrote {}", x, refmodel::hex(&buf));
    } else {
        ensure!(res.is_err(), "accept-reject", "Fq::to_big_endian into a {}-byte buffer returned Ok for {:x}", len, x);
    }
    Ok(1)
}
pub fn setbit_case(x: &N, i: usize, v: bool) -> Result<u32, Bad> {
    let rr = r();
    let mut lx = Fr::from_n(x);
    lib("set_bit", || lx.set_bit(i, v))?;
    let got = lib("to_slice", || lx.to_slice())?;
    let gv = from_be(&got);
    ensure!(&gv < rr, "non-canonical", "Fr({:x}).set_bit({}, {}) encodes as {:x} >= r", x, i, v, gv);
    let back = lib("from_slice", || Fr::from_slice(&got))?;
    ensure!(
        back == Some(lx),
        "non-canonical",
        "Fr({:x}).set_bit({}, {}) is not fully reduced: from_slice(to_slice(y)) != y (encoding {:x})",
        x,
        i,
        v,
        gv
    );
    let iz = lib("is_zero", || lx.is_zero())?;
    ensure!(iz == gv.is_zero(), "non-canonical", "Fr({:x}).set_bit({}, {}): is_zero = {} but the encoding is {:x}", x, i, v, iz, gv);
    if i < 256 {
        let want = if v { (x | &two(i)) % rr } else { clear_bit(x, i) };
        ensure!(gv == want, "wrong-value", "Fr({:x}).set_bit({}, {}) = {:x}, expected {:x} (bit {} of the canonical value, reduced mod r)", x, i, v, gv, want, i);
    } else if !v {
        ensure!(&gv == x, "wrong-value", "clearing bit {} of {:x} changed the value to {:x}", i, x, gv);
    } else {
        let alt = (x + two(i)) % rr;
        ensure!(&gv == x || gv == alt, "wrong-value", "Fr({:x}).set_bit({}, true) = {:x}: neither unchanged nor x + 2^i mod r", x, i, gv);
    }
    Ok(1)
}
fn clear_bit(x: &N, i: usize) -> N {
    if x.bit(i as u64) {
        x - two(i)
    } else {
        x.clone()
    }
}

/// the BYTES alphabet for integer conversions: for every length, boundary values around p, multiples
/// of p and of r-1 just below 2^(8 len), all-zero / all-FF / single-bit patterns, seeded generic bytes
pub fn int_bytes(p: &N, seed: u64, maxlen: usize, extra: bool) -> Vec<Vec<u8>> {
    let mut out: Vec<Vec<u8>> = vec![];
    let rm1 = r() - n(1);
    let mut sm = SplitMix(seed ^ 0xb17e5);
    for len in 0..=maxlen {
        out.push(vec![0u8; len]);
        if len == 0 {
            continue;
        }
        out.push(vec![0xFFu8; len]);
        let mut v = vec![0u8; len];
        v[len - 1] = 1;
        out.push(v);
        let mut v = vec![0u8; len];
        v[0] = 0x80;
        out.push(v);
        let mut v = vec![0xFFu8; len];
        v[0] = 0x7F;
        out.push(v);
        let cap = two(8 * len);
        let mut vals: Vec<N> = vec![];
        for m in [p, &rm1] {
            for d in [0u64, 1, 2] {
                // m-1+d truncated to fit
                let x = m + n(d) - n(1);
                if x < cap {
                    vals.push(x);
                }
            }
            // the largest multiples below 2^(8 len), and their neighbours
            if &cap > m {
                let k = (&cap - n(1)) / m;
                let top = &k * m;
                vals.push(top.clone());
                vals.push(&top - n(1));
                if &top + n(1) < cap {
                    vals.push(&top + n(1));
                }
                if k > N::one() {
                    let mid = (&k / n(2)) * m;
                    vals.push(mid.clone());
                    vals.push(mid - n(1));
                }
            }
        }
        if cap > two(256) {
            vals.push(two(256) - n(1));
            vals.push(two(256));
            vals.push(two(256) + n(1));
        }
        for x in vals {
            out.push(be(&x, len));
        }
        for _ in 0..(if extra { 6 } else { 2 }) {
            out.push((0..len).map(|_| sm.next() as u8).collect());
        }
    }
    let mut seen = std::collections::HashSet::new();
    out.retain(|b| seen.insert(b.clone()));
    out
}

pub fn strings(p: &N, seed: u64) -> Vec<String> {
    let mut v: Vec<String> = vec![];
    let dec = |x: &N| x.to_str_radix(10);
    for x in [n(0), n(1), n(9), n(10), p - n(1), p.clone(), p + n(1), p * n(2), p * p, two(256), two(255)] {
        v.push(dec(&x));
        v.push(format!("000{}", dec(&x)));
    }
    // every digit on its own, leading, trailing, and repeated up to the 77/78-digit boundary of p
    for d in 0..10u8 {
        let c = (b'0' + d) as char;
        v.push(c.to_string());
        v.push(format!("1{}", c));
        v.push(format!("{}0", c));
        for len in [76usize, 77, 78, 79] {
            v.push(c.to_string().repeat(len));
        }
    }
    v.push("0".repeat(160));
    v.push("9".repeat(160));
    v.push("9".repeat(77));
    v.push("9".repeat(78));
    v.push("1".to_string() + &"0".repeat(159));
    for g in generic(&(p * p), seed, 0x57a, 4) {
        v.push(dec(&g));
    }
    let bads = ['+', '-', ' ', '.', 'a', 'x', '\0', '٣', '３', '😀', 'é', '\n', '/', ':'];
    let base = dec(&(p - n(12345)));
    for c in bads {
        let chars: Vec<char> = base.chars().collect();
        for pos in [0usize, chars.len() / 2, chars.len()] {
            let mut s: String = chars[..pos].iter().collect();
            s.push(c);
            s.extend(chars[pos..].iter());
            v.push(s);
        }
        v.push(c.to_string());
        let mut long: String = "1".repeat(159);
        long.push(c);
        v.push(long);
    }
    // every non-digit at EVERY position of a 60-digit string (parsers that work in chunks have internal boundaries)
    let body: Vec<char> = dec(&(p - n(987654321))).chars().take(60).collect();
    for c in bads {
        for pos in 0..=body.len() {
            let mut s: String = body[..pos].iter().collect();
            s.push(c);
            s.extend(body[pos..].iter());
            v.push(s);
        }
    }
    let mut seen = std::collections::HashSet::new();
    v.retain(|s| seen.insert(s.clone()));
    v
}
/// index -> (character, string built around it); None for surrogate code points
fn every_char_string(i: u64) -> Option<(char, String)> {
    let c = char::from_u32((i / 4) as u32)?;
    let s = match i % 4 {
        0 => c.to_string(),
        1 => format!("1{}2", c),
        2 => format!("{}7", c),
        _ => format!("340282366920938463463374607431768211456{}", c),
    };
    Some((c, s))
}
const SHORT_ALPHABET: [char; 14] = ['0', '1', '9', '+', '-', ' ', '.', 'a', 'x', '\0', '٣', '３', '😀', 'é'];
fn short_string(mut i: u64) -> String {
    // all strings of length 0..=3: index 0 = "", then length 1, 2, 3
    let k = SHORT_ALPHABET.len() as u64;
    let mut len = 0;
    let mut block = 1u64;
    while i >= block {
        i -= block;
        block *= k;
        len += 1;
    }
    let mut s = vec![];
    for _ in 0..len {
        s.push(SHORT_ALPHABET[(i % k) as usize]);
        i /= k;
    }
    s.iter().rev().collect()
}
fn short_bytes(i: u64) -> Vec<u8> {
    // every byte string of length <= 3: index 0 = empty, then length 1, 2, 3
    if i == 0 {
        vec![]
    } else if i <= 256 {
        vec![(i - 1) as u8]
    } else if i < 257 + 65536 {
        let j = i - 257;
        vec![(j >> 8) as u8, j as u8]
    } else {
        let j = i - 257 - 65536;
        vec![(j >> 16) as u8, (j >> 8) as u8, j as u8]
    }
}

fn field<F: FpApi>(run: &Run) {
    let p = F::modulus().clone();
    let thorough = run.tier == mccore::Tier::Thorough;
    let bs = int_bytes(&p, run.seed, 70, thorough);
    const LEN_CLASSES: [&str; 6] = ["len=0", "len=1..31", "len=32", "len=33..64", "len>=65", "value>=p"];
    let nb = bs.len() as u64;
    run.grid(
        Spec { name: &format!("c13.{}.bytes", F::NAME), n: nb, classes: &LEN_CLASSES, required: &LEN_CLASSES },
        |i| {
            let b = &bs[i as usize];
            let k = bytes_case::<F>(b)?;
            let mut c = match b.len() {
                0 => 1,
                1..=31 => 2,
                32 => 4,
                33..=64 => 8,
                _ => 16,
            };
            if from_be(b) >= p {
                c |= 32;
            }
            Ok(Tally::new(k, true, c))
        },
        |i| json!({"op": "c13.bytes", "field": F::NAME, "bytes": jb(&bs[i as usize])}),
    );
    run.grid(
        Spec { name: &format!("c13.{}.every-short-byte-string", F::NAME), n: if thorough { 65793 + (1 << 24) } else { 65793 }, classes: &[], required: &[] },
        |i| {
            let b = short_bytes(i);
            let k = bytes_case::<F>(&b)?;
            Ok(Tally::new(k, true, 0))
        },
        |i| json!({"op": "c13.bytes", "field": F::NAME, "bytes": jb(&short_bytes(i))}),
    );
    let ss = strings(&p, run.seed);
    run.grid(
        Spec { name: &format!("c13.{}.from_str", F::NAME), n: ss.len() as u64, classes: &["digits", "non-digit"], required: &["digits", "non-digit"] },
        |i| {
            let s = &ss[i as usize];
            str_case::<F>(s)?;
            let dig = !s.is_empty() && s.chars().all(|c| c.is_ascii_digit());
            Ok(Tally::new(1, true, if dig { 1 } else { 2 }))
        },
        |i| json!({"op": "c13.str", "field": F::NAME, "s": ss[i as usize]}),
    );
    // EVERY Unicode scalar value, alone, between digits, leading and trailing: the quantifier "any other character"
    // is decided exhaustively over the character set (parsers that narrow a char to u8/u16 alias digits)
    run.grid(
        Spec { name: &format!("c13.{}.from_str.every-char", F::NAME), n: 0x110000 * 4, classes: &["digit", "non-digit"], required: &["digit", "non-digit"] },
        |i| match every_char_string(i) {
            None => Ok(Tally::new(0, false, 0)),
            Some((c, s)) => {
                str_case::<F>(&s)?;
                Ok(Tally::new(1, true, if c.is_ascii_digit() { 1 } else { 2 }))
            }
        },
        |i| json!({"op": "c13.str", "field": F::NAME, "s": every_char_string(i).map(|x| x.1).unwrap_or_default()}),
    );
    let nshort: u64 = 1 + 14 + 14 * 14 + 14 * 14 * 14 + if thorough { 14u64.pow(4) } else { 0 };
    run.grid(
        Spec { name: &format!("c13.{}.every-short-string", F::NAME), n: nshort, classes: &[], required: &[] },
        |i| {
            str_case::<F>(&short_string(i))?;
            Ok(Tally::new(1, i > 0, 0))
        },
        |i| json!({"op": "c13.str", "field": F::NAME, "s": short_string(i)}),
    );
}

pub fn run(run: &Run) {
    field::<Fq>(run);
    field::<Fr>(run);
    let thorough = run.tier == mccore::Tier::Thorough;
    // from_hash
    let hb = int_bytes(r(), run.seed ^ 0x4a5, 70, thorough);
    run.grid(
        Spec { name: "c13.Fr.from_hash", n: hb.len() as u64, classes: &["len<=64", "len>64", "value>=r-1"], required: &["len<=64", "len>64", "value>=r-1"] },
        |i| {
            let b = &hb[i as usize];
            hash_case(b)?;
            let mut c = if b.len() <= 64 { 1 } else { 2 };
            if from_be(b) >= r() - n(1) {
                c |= 4;
            }
            Ok(Tally::new(1, true, c))
        },
        |i| json!({"op": "c13.hash", "bytes": jb(&hb[i as usize])}),
    );
    run.grid(
        Spec { name: "c13.Fr.from_hash.every-short-byte-string", n: if thorough { 65793 + (1 << 24) } else { 65793 }, classes: &[], required: &[] },
        |i| {
            hash_case(&short_bytes(i))?;
            Ok(Tally::new(1, true, 0))
        },
        |i| json!({"op": "c13.hash", "bytes": jb(&short_bytes(i))}),
    );
    // to_big_endian: every buffer length 0..=70
    let qs = {
        let mut v = special(refmodel::q());
        v.extend(fp_small(refmodel::q(), if thorough { 48 } else { 16 }, run.seed));
        dedup(v)
    };
    let nq = qs.len() as u64;
    run.grid(
        Spec { name: "c13.Fq.to_big_endian", n: nq * 71, classes: &["len=32", "len!=32"], required: &["len=32", "len!=32"] },
        |i| {
            let (ix, len) = ((i / 71) as usize, (i % 71) as usize);
            bigendian_case(&qs[ix], len)?;
            Ok(Tally::new(1, true, if len == 32 { 1 } else { 2 }))
        },
        |i| json!({"op": "c13.bigendian", "x": jn(&qs[(i / 71) as usize]), "len": i % 71}),
    );
    // set_bit: every index 0..=300, both values
    let xs = {
        let mut v = special(r());
        v.extend(fp_small(r(), if thorough { 48 } else { 16 }, run.seed));
        v.extend(generic(r(), run.seed, 0x5e7b, if thorough { 32 } else { 8 }));
        dedup(v)
    };
    let nx = xs.len() as u64;
    run.grid(
        Spec {
            name: "c13.Fr.set_bit",
            n: nx * 301 * 2,
            classes: &["index<256", "index>=256", "set", "clear", "result>=r-before-reduction"],
            required: &["index<256", "index>=256", "set", "clear", "result>=r-before-reduction"],
        },
        |i| {
            let ix = (i / 602) as usize;
            let bit = ((i % 602) / 2) as usize;
            let v = i % 2 == 1;
            setbit_case(&xs[ix], bit, v)?;
            let mut c = if bit < 256 { 1 } else { 2 };
            c |= if v { 4 } else { 8 };
            if bit < 256 && v && (&xs[ix] | &two(bit)) >= *r() {
                c |= 16;
            }
            Ok(Tally::new(1, true, c))
        },
        |i| json!({"op": "c13.setbit", "x": jn(&xs[(i / 602) as usize]), "bit": (i % 602) / 2, "to": i % 2 == 1}),
    );
}
pub fn meta(_run: &Run) -> Meta {
    Meta {
        rule: "grid: every length 0..=70 x boundary integer patterns (p-1, p, p+1, multiples of p and r-1 just below 2^(8 len), \
               2^256-1, all-00, all-FF, single bits, seeded bytes) through from_slice / TryFrom / interpret / from_hash; EVERY byte \
               string of length <= 2; decimal strings around p and with every injected non-digit at three positions; EVERY \
               string of length <= 3 over a 14-character alphabet; every output buffer length 0..=70; set_bit for every \
               index 0..=300 x both values x the scalar alphabet. Every case is a distinct input; all are counted non-trivial \
               except the empty string."
            .into(),
        engine: "sm9mc-grid".into(),
        bounds: json!({"max_len": 70, "short_bytes_len": _run.tier.pick(2, 3), "short_string_len": 3, "bit_indices": 301}),
        assumptions: vec!["from_str(\"\") and setting a bit index >= 256 are deliberately unconstrained (see DESIGN.md C13 'N')".into()],
    }
}
pub fn replay(c: &Value) -> Result<(), Bad> {
    let fld = c["field"].as_str().unwrap_or("Fr").to_string();
    match gs(c, "op").as_str() {
        "c13.bytes" => {
            let b = gb(c, "bytes");
            if fld == "Fq" { bytes_case::<Fq>(&b) } else { bytes_case::<Fr>(&b) }.map(|_| ())
        }
        "c13.hash" => hash_case(&gb(c, "bytes")).map(|_| ()),
        "c13.str" => {
            let s = gs(c, "s");
            if fld == "Fq" { str_case::<Fq>(&s) } else { str_case::<Fr>(&s) }.map(|_| ())
        }
        "c13.bigendian" => bigendian_case(&gn(c, "x"), gu(c, "len") as usize).map(|_| ()),
        "c13.setbit" => setbit_case(&gn(c, "x"), gu(c, "bit") as usize, c["to"].as_bool().unwrap()).map(|_| ()),
        o => panic!("unknown op {}", o),
    }
}

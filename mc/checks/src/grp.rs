//! Group layer: C04 (group law), C05 (scalar multiplication), C10 (encodings), C15 (equality,
//! normalisation, affine conversion) — generic over G1 and G2.

use crate::api::{all_values, alpha, build, fr, lib, pt_json, ref_mul, rep_from_json, reps_id, reps_nonid, GroupApi, Rep, Val};
use mccore::alpha::{dlogs, fp_alpha, scalars, special};
use mccore::{ensure, gn, gs, jn, unrank, Bad, Meta, Run, Spec, Tally, Tier};
use num_traits::{One, Zero};
use refmodel::{addm, ec_add, ec_mul, ec_neg, ec_sub, mulm, n, on_curve, r, subm, Fld, Fmt, Pt, N};
use serde_json::{json, Value};
use sm9_core::{G1, G2};

pub fn values<G: GroupApi>(tier: Tier, seed: u64) -> Vec<Val<G>> {
    let ds = dlogs(tier, seed);
    let mut vs = all_values::<G>(&ds, &reps_nonid::<G>(seed, &[]), &reps_id::<G>(seed));
    // representatives with X == 1 resp. Y == 1 exist only for some d (square / cube roots): make sure each
    // occurs at least twice by adding the first small discrete logs that admit them
    for rp in [Rep::ScaledX1, Rep::ScaledY1] {
        let mut have = vs.iter().filter(|v| v.rep == rp).count();
        let mut d = 2u64;
        while have < 2 && d < 400 {
            let dn = n(d);
            if !ds.contains(&dn) {
                if let Some(v) = build::<G>(&dn, &rp) {
                    vs.push(build::<G>(&dn, &Rep::Aff).unwrap());
                    vs.push(v);
                    have += 1;
                }
            }
            d += 1;
        }
    }
    // identity representatives last
    vs.sort_by_key(|v| v.d.is_zero());
    vs
}
/// a small value set: 5 discrete logs x {Aff, LibMul, Scaled(generic)} + 3 identity representatives
pub fn values_small<G: GroupApi>(seed: u64) -> Vec<Val<G>> {
    let c = refmodel::consts();
    let ds = vec![n(1), n(2), r() - n(1), c.lambda.clone(), n(3)];
    let nonid = vec![Rep::Aff, Rep::LibMul, Rep::Scaled(G::rf_generic(seed, 1))];
    let id = vec![Rep::Id0, Rep::IdSub, Rep::IdNew(G::RF::one(), G::RF::one())];
    all_values::<G>(&ds, &nonid, &id)
}
/// Scaled(s) for every s of the SPECIAL set of FP(q) (embedded in the coordinate field) on a few d
pub fn values_scaled_special<G: GroupApi>(seed: u64) -> Vec<Val<G>> {
    let c = refmodel::consts();
    let ds = vec![n(1), r() - n(1), c.lambda.clone(), n(2), mccore::alpha::generic(r(), seed, 0x5c, 1).pop().unwrap()];
    let mut out = vec![];
    for s in special(refmodel::q()) {
        for sf in G::scale_embeddings(&s) {
            if sf.is_zero() {
                continue;
            }
            for d in &ds {
                if let Some(v) = build::<G>(d, &Rep::Scaled(sf.clone())) {
                    out.push(v);
                }
            }
        }
    }
    out
}

/// thorough tier: Scaled(s) for EVERY member s of the quick FP(q) alphabet (all limb patterns, canonical and
/// Montgomery-stored, special, paired, generic), in every embedding into the coordinate field, on three
/// discrete logs: the Jacobian coordinates that flow through the point code then take every limb shape
pub fn values_scaled_fp<G: GroupApi>(seed: u64, alphabet: Tier) -> Vec<Val<G>> {
    let c = refmodel::consts();
    let ds = vec![n(1), c.lambda.clone(), mccore::alpha::generic(r(), seed, 0x5c, 1).pop().unwrap()];
    let mut out = vec![];
    for s in fp_alpha(refmodel::q(), alphabet, seed).all {
        for sf in G::scale_embeddings(&s) {
            if sf.is_zero() {
                continue;
            }
            for d in &ds {
                if let Some(v) = build::<G>(d, &Rep::Scaled(sf.clone())) {
                    out.push(v);
                }
            }
        }
    }
    out
}

/// representatives whose Jacobian X resp. Y coordinate IS a chosen field element t: Scaled(s) with s^2 x = t
/// (square root of t/x) resp. s^3 y = t (cube root of t/y), on the first small discrete log that admits it.
/// The coordinate alphabet T: the small FP(q) alphabet (special values, Montgomery-extreme stored values) plus
/// stored limb patterns with zero / all-ones limbs; thorough: the whole quick FP(q) alphabet. For G2 t is embedded
/// as real part, as imaginary part, and as t + u.
pub fn values_coord_targets<G: GroupApi>(seed: u64, tier: Tier) -> Vec<Val<G>> {
    use mccore::alpha::{fp_small, from_limbs, limbs_of, rinv};
    let q = refmodel::q();
    let ri = rinv(q);
    let mut ts: Vec<N> = match tier {
        Tier::Quick => fp_small(q, 18, seed),
        Tier::Thorough => fp_alpha(q, Tier::Quick, seed).all,
    };
    let top = limbs_of(q)[3];
    for l in [[0u64, 1, 0, 0], [0, u64::MAX, u64::MAX, top - 1], [u64::MAX, 0, 0, 0], [1, 0, 0, 1], [0, 0, 1, 0], [0, 0, 0, 1]] {
        ts.push(mulm(&from_limbs(&l), &ri, q));
    }
    let ts = mccore::alpha::dedup(ts);
    // quotient-boundary bands of the small-multiple primitives (double, triple, halve): stored words a with 2a resp.
    // 3a next to a multiple of q, and next to k * q[3] * 2^192 (the top-limb estimate of that multiple); these are
    // targets for the coordinate itself AND for its square (doubling computes 3 X^2, Y^2, ...)
    let mut band: Vec<N> = vec![];
    {
        let t192 = N::from(top) << 192u32;
        for k in 1u64..=2 {
            for den in [2u64, 3] {
                if k >= den {
                    continue;
                }
                let hi_edge = (q * n(k)) / n(den); // den * a crosses k q between hi_edge and hi_edge + 1
                let lo_edge = (&t192 * n(k)) / n(den);
                for e in [hi_edge.clone(), &hi_edge + n(1), &hi_edge - n(1), lo_edge.clone(), &lo_edge + n(1), (&hi_edge + &lo_edge) / n(2)] {
                    if &e < q {
                        band.push(mulm(&e, &ri, q));
                    }
                }
            }
        }
    }
    let band = mccore::alpha::dedup(band);
    let nts = ts.len();
    let mut ts = ts;
    ts.extend(band.iter().cloned());
    let mut out = vec![];
    for (ti, t) in ts.iter().enumerate() {
        let mut embs = G::scale_embeddings(t);
        if embs.len() > 1 {
            // mixed: t + u
            let e1 = embs[0].clone();
            let u = G::scale_embeddings(&N::one()).pop().unwrap();
            embs.push(e1.add(&u));
        }
        for tf in embs {
            if tf.is_zero() {
                continue;
            }
            // which: 0 X = t, 1 Y = t, 2 X^2 = t, 3 Y^2 = t (the squares only for the band targets)
            for which in 0..(if ti >= nts { 4 } else { 2 }) {
                let tgt = if which >= 2 {
                    match G::rf_sqrt(&tf) {
                        Some(s) => s,
                        None => continue,
                    }
                } else {
                    tf.clone()
                };
                for d in 1u64..=24 {
                    let p = ref_mul::<G>(&n(d));
                    let (x, y) = p.xy().unwrap();
                    let sc = if which % 2 == 0 { x.inv().and_then(|xi| G::rf_sqrt(&tgt.mul(&xi))) } else { y.inv().and_then(|yi| G::rf_cbrt(&tgt.mul(&yi))) };
                    if let Some(sc) = sc {
                        if !sc.is_zero() {
                            if let Some(v) = build::<G>(&n(d), &Rep::Scaled(sc)) {
                                let (vx, vy, _) = v.v.coords();
                                // the construction is self-checking
                                assert!(
                                    match which {
                                        0 => vx == tf,
                                        1 => vy == tf,
                                        2 => vx.sq() == tf,
                                        _ => vy.sq() == tf,
                                    },
                                    "coordinate target not met"
                                );
                                out.push(v);
                                break;
                            }
                        }
                    }
                }
            }
        }
    }
    out
}

fn expect_pt<G: GroupApi>(what: &str, got: &G, want: &Pt<G::RF>, a: &Val<G>, b: Option<&Val<G>>) -> Result<(), Bad> {
    let g = alpha::<G>(got);
    ensure!(
        &g == want,
        "wrong-point",
        "{} {}: A={} B={} library (x/z^2, y/z^3) = {} , textbook result = {}",
        G::NAME,
        what,
        a.json(),
        b.map(|b| b.json()).unwrap_or(Value::Null),
        pt_json::<G>(&g),
        pt_json::<G>(want)
    );
    ensure!(on_curve(&g, &G::ref_b()), "off-curve", "{} {}: result is not on the curve (A={})", G::NAME, what, a.json());
    Ok(())
}

// ---------------------------------------------------------------------------------------------
// C04
// ---------------------------------------------------------------------------------------------
pub fn c04_pair<G: GroupApi>(a: &Val<G>, b: &Val<G>) -> Result<u32, Bad> {
    let (pa, pb) = (ref_mul::<G>(&a.d), ref_mul::<G>(&b.d));
    let sum = ec_add(&pa, &pb);
    // the model's two views must agree (chord-and-tangent vs discrete logs); otherwise the oracle is broken
    assert_eq!(sum, ref_mul::<G>(&addm(&a.d, &b.d, r())), "reference model inconsistent");
    let s = lib("A+B", || a.v + b.v)?;
    expect_pt::<G>("A+B", &s, &sum, a, Some(b))?;
    let s2 = lib("B+A", || b.v + a.v)?;
    expect_pt::<G>("B+A", &s2, &sum, a, Some(b))?;
    // commutativity is decided on the denoted points (both already equal the textbook sum); the library's own
    // == is C15's subject and is deliberately not used as an observation channel here
    let d = lib("A-B", || a.v - b.v)?;
    expect_pt::<G>("A-B", &d, &ec_sub(&pa, &pb), a, Some(b))?;
    // (A-B)+B == A
    let back = lib("(A-B)+B", || d + b.v)?;
    expect_pt::<G>("(A-B)+B", &back, &pa, a, Some(b))?;
    Ok(4)
}
pub fn c04_unary<G: GroupApi>(a: &Val<G>) -> Result<u32, Bad> {
    let pa = ref_mul::<G>(&a.d);
    // the constructed value itself denotes what the model says
    expect_pt::<G>("value", &a.v, &pa, a, None)?;
    let ng = lib("-A", || -a.v)?;
    expect_pt::<G>("-A", &ng, &ec_neg(&pa), a, None)?;
    let z = lib("A+(-A)", || a.v + ng)?;
    expect_pt::<G>("A+(-A)", &z, &Pt::Inf, a, None)?;
    let zero = G::zero();
    let l = lib("A+O", || a.v + zero)?;
    expect_pt::<G>("A+O", &l, &pa, a, None)?;
    let rr = lib("O+A", || zero + a.v)?;
    expect_pt::<G>("O+A", &rr, &pa, a, None)?;
    let dbl = lib("A+A", || a.v + a.v)?;
    expect_pt::<G>("A+A", &dbl, &ec_add(&pa, &pa), a, None)?;
    Ok(6)
}
pub fn c04_triple<G: GroupApi>(a: &Val<G>, b: &Val<G>, c: &Val<G>) -> Result<u32, Bad> {
    let l = lib("(A+B)+C", || (a.v + b.v) + c.v)?;
    let rr = lib("A+(B+C)", || a.v + (b.v + c.v))?;
    let want = ref_mul::<G>(&addm(&addm(&a.d, &b.d, r()), &c.d, r()));
    expect_pt::<G>("(A+B)+C", &l, &want, a, Some(b))?;
    expect_pt::<G>("A+(B+C)", &rr, &want, a, Some(b))?;
    let _ = c;
    Ok(2)
}
const C04_CLASSES: [&str; 13] = [
    "arm:z1=1,z2=1",
    "arm:z1!=1,z2=1",
    "arm:z1=1,z2!=1",
    "arm:z1!=1,z2!=1",
    "rel:equal",
    "rel:opposite",
    "rel:identity-operand",
    "rel:same-y-different-x",
    "rel:independent",
    "rel:doubled(B=2A)",
    "equal&jacobian+affine",
    "opposite&both-jacobian",
    "rel:opposite-y-different-x",
];
fn c04_class<G: GroupApi>(a: &Val<G>, b: &Val<G>) -> u32 {
    let one = G::RF::one();
    let za = a.v.coords().2 == one;
    let zb = b.v.coords().2 == one;
    let mut c = 0u32;
    let idop = a.d.is_zero() || b.d.is_zero();
    if !idop {
        c |= match (za, zb) {
            (true, true) => 1,
            (false, true) => 2,
            (true, false) => 4,
            (false, false) => 8,
        };
    }
    let lam = &refmodel::consts().lambda;
    if idop {
        c |= 1 << 6;
    } else if a.d == b.d {
        c |= 1 << 4;
        if za != zb {
            c |= 1 << 10;
        }
    } else if addm(&a.d, &b.d, r()).is_zero() {
        c |= 1 << 5;
        if !za && !zb {
            c |= 1 << 11;
        }
    } else if mulm(&a.d, lam, r()) == b.d || mulm(&b.d, lam, r()) == a.d {
        c |= 1 << 7;
    } else if addm(&mulm(&a.d, lam, r()), &b.d, r()).is_zero() || addm(&mulm(&b.d, lam, r()), &a.d, r()).is_zero() {
        // B = -lambda*A (or A = -lambda*B): y_B = -y_A with x_B != x_A
        c |= 1 << 12;
    } else if mulm(&a.d, &n(2), r()) == b.d {
        c |= 1 << 9;
    } else {
        c |= 1 << 8;
    }
    c
}
fn c04_group<G: GroupApi>(run: &Run) {
    let vs = values::<G>(run.tier, run.seed);
    let nn = vs.len() as u64;
    run.note(&format!("values_{}", G::NAME), json!({"concrete_values": nn, "reps": rep_hist(&vs)}));
    run.grid(
        Spec { name: &format!("c04.{}.pair", G::NAME), n: nn * nn, classes: &C04_CLASSES, required: &C04_CLASSES },
        |i| {
            let (a, b) = (&vs[(i / nn) as usize], &vs[(i % nn) as usize]);
            let k = c04_pair::<G>(a, b)?;
            Ok(Tally::new(k, !(a.d.is_zero() && b.d.is_zero()), c04_class::<G>(a, b)))
        },
        |i| json!({"op": "c04.pair", "group": G::NAME, "A": vs[(i / nn) as usize].json(), "B": vs[(i % nn) as usize].json()}),
    );
    run.grid(
        Spec { name: &format!("c04.{}.unary", G::NAME), n: nn, classes: &[], required: &[] },
        |i| Ok(Tally::new(c04_unary::<G>(&vs[i as usize])?, true, 0)),
        |i| json!({"op": "c04.unary", "group": G::NAME, "A": vs[i as usize].json()}),
    );
    // boundary field values pushed through the point code: Scaled(s) for every special s
    let sp = values_scaled_special::<G>(run.seed);
    let sm = values_small::<G>(run.seed);
    let (ns, nm) = (sp.len() as u64, sm.len() as u64);
    run.grid(
        Spec { name: &format!("c04.{}.scaled-special", G::NAME), n: ns * nm, classes: &[], required: &[] },
        |i| {
            let (a, b) = (&sp[(i / nm) as usize], &sm[(i % nm) as usize]);
            let mut k = c04_pair::<G>(a, b)?;
            k += c04_pair::<G>(b, a)?;
            Ok(Tally::new(k, true, 0))
        },
        |i| json!({"op": "c04.pair2", "group": G::NAME, "A": sp[(i / nm) as usize].json(), "B": sm[(i % nm) as usize].json()}),
    );
    run.grid(
        Spec { name: &format!("c04.{}.scaled-special.unary", G::NAME), n: ns, classes: &[], required: &[] },
        |i| Ok(Tally::new(c04_unary::<G>(&sp[i as usize])?, true, 0)),
        |i| json!({"op": "c04.unary", "group": G::NAME, "A": sp[i as usize].json()}),
    );
    {
        // Jacobian X / Y coordinate equal to every member of the coordinate alphabet
        let ct = values_coord_targets::<G>(run.seed, run.tier);
        let nc = ct.len() as u64;
        run.note(&format!("coordinate_targets_{}", G::NAME), json!(nc));
        run.grid(
            Spec { name: &format!("c04.{}.coordinate-targets", G::NAME), n: nc * nm, classes: &[], required: &[] },
            |i| {
                let (a, b) = (&ct[(i / nm) as usize], &sm[(i % nm) as usize]);
                let mut k = c04_pair::<G>(a, b)?;
                k += c04_pair::<G>(b, a)?;
                Ok(Tally::new(k, true, 0))
            },
            |i| json!({"op": "c04.pair2", "group": G::NAME, "A": ct[(i / nm) as usize].json(), "B": sm[(i % nm) as usize].json()}),
        );
        run.grid(
            Spec { name: &format!("c04.{}.coordinate-targets.unary", G::NAME), n: nc, classes: &[], required: &[] },
            |i| Ok(Tally::new(c04_unary::<G>(&ct[i as usize])?, true, 0)),
            |i| json!({"op": "c04.unary", "group": G::NAME, "A": ct[i as usize].json()}),
        );
    }
    if run.tier == Tier::Thorough {
        let sf = values_scaled_fp::<G>(run.seed, Tier::Quick);
        let nf = sf.len() as u64;
        run.grid(
            Spec { name: &format!("c04.{}.scaled-fp", G::NAME), n: nf * nm, classes: &[], required: &[] },
            |i| {
                let (a, b) = (&sf[(i / nm) as usize], &sm[(i % nm) as usize]);
                let mut k = c04_pair::<G>(a, b)?;
                k += c04_pair::<G>(b, a)?;
                Ok(Tally::new(k, true, 0))
            },
            |i| json!({"op": "c04.pair2", "group": G::NAME, "A": sf[(i / nm) as usize].json(), "B": sm[(i % nm) as usize].json()}),
        );
        run.grid(
            Spec { name: &format!("c04.{}.scaled-fp.unary", G::NAME), n: nf, classes: &[], required: &[] },
            |i| Ok(Tally::new(c04_unary::<G>(&sf[i as usize])?, true, 0)),
            |i| json!({"op": "c04.unary", "group": G::NAME, "A": sf[i as usize].json()}),
        );
    }
    let tv: Vec<Val<G>> = if run.tier == Tier::Quick { sm.clone() } else { values_small::<G>(run.seed).into_iter().chain(vs.iter().filter(|v| matches!(v.rep, Rep::LibSub | Rep::ScaledX1)).take(8).cloned()).collect() };
    let tn = tv.len() as u64;
    run.grid(
        Spec { name: &format!("c04.{}.triple", G::NAME), n: tn * tn * tn, classes: &[], required: &[] },
        |i| {
            let ix = unrank(i, &[tn, tn, tn]);
            Ok(Tally::new(c04_triple::<G>(&tv[ix[0]], &tv[ix[1]], &tv[ix[2]])?, true, 0))
        },
        |i| {
            let ix = unrank(i, &[tn, tn, tn]);
            json!({"op": "c04.triple", "group": G::NAME, "A": tv[ix[0]].json(), "B": tv[ix[1]].json(), "C": tv[ix[2]].json()})
        },
    );
}
fn rep_hist<G: GroupApi>(vs: &[Val<G>]) -> Value {
    let mut h = std::collections::BTreeMap::new();
    for v in vs {
        *h.entry(v.rep.short().to_string()).or_insert(0u64) += 1;
    }
    mccore::hist_json(&h)
}
pub fn c04_run(run: &Run) {
    c04_group::<G1>(run);
    c04_group::<G2>(run);
}
pub fn c04_meta(_run: &Run) -> Meta {
    Meta {
        rule: "grid: every ordered pair (A,B) over all concrete values = (discrete logs D) x (representatives Aff, LibMul, LibSub, Scaled(2), \
               Scaled(-1), Scaled(generic), ScaledX1, ScaledY1) + 8 identity representatives, for A+B, B+A, A-B, (A-B)+B; unary -A, A+(-A), \
               A+O, O+A, A+A on every value; Scaled(s) for every special field value s against a small value set; all triples of a small \
               value set for associativity. Oracle: textbook affine chord-and-tangent on the reference points (cross-checked against \
               discrete-log arithmetic). Model-side histogram over adder arm x relation, every class required non-empty."
            .into(),
        engine: "sm9mc-grid".into(),
        bounds: json!({}),
        assumptions: vec!["nothing is asserted about the concrete (x,y,z) returned or whether an identity comes back canonical".into()],
    }
}

// ---------------------------------------------------------------------------------------------
// C05
// ---------------------------------------------------------------------------------------------
pub fn c05_mul<G: GroupApi>(a: &Val<G>, k: &N) -> Result<u32, Bad> {
    let want = ref_mul::<G>(&mulm(k, &a.d, r()));
    let lk = fr(k);
    let p1 = lib("P*k", || a.v * lk)?;
    let g1 = alpha::<G>(&p1);
    ensure!(g1 == want, "wrong-point", "{} P*k: P={} k={:x}: library = {} , k-fold sum = {}", G::NAME, a.json(), k, pt_json::<G>(&g1), pt_json::<G>(&want));
    ensure!(on_curve(&g1, &G::ref_b()), "off-curve", "{} P*k not on the curve: P={} k={:x}", G::NAME, a.json(), k);
    let p2 = lib("k*P", || G::lmul(lk, a.v))?;
    let g2 = alpha::<G>(&p2);
    ensure!(g2 == want, "wrong-point", "{} k*P: P={} k={:x}: library = {} , k-fold sum = {}", G::NAME, a.json(), k, pt_json::<G>(&g2), pt_json::<G>(&want));
    Ok(2)
}
/// the oracle itself: independent double-and-add with the INTEGER k on the reference point d*G must agree
/// with the discrete-log shortcut the other drivers use
pub fn c05_oracle<G: GroupApi>(d: &N, k: &N) -> Result<u32, Bad> {
    let direct = ec_mul(&ref_mul::<G>(d), k);
    let short = ref_mul::<G>(&mulm(k, d, r()));
    assert_eq!(direct, short, "reference model inconsistent for d={:x} k={:x}", d, k);
    // and the library agrees with it on the affine representative
    let a = build::<G>(d, &Rep::Aff).expect("affine representative");
    let p = lib("P*k", || a.v * fr(k))?;
    let g = alpha::<G>(&p);
    ensure!(g == direct, "wrong-point", "{} P*k: P={} k={:x}: library = {} , double-and-add = {}", G::NAME, a.json(), k, pt_json::<G>(&g), pt_json::<G>(&direct));
    Ok(1)
}
pub fn c05_laws<G: GroupApi>(a: &Val<G>, k1: &N, k2: &N) -> Result<u32, Bad> {
    let (l1, l2) = (fr(k1), fr(k2));
    let lhs = lib("(a+b)P", || a.v * (l1 + l2))?;
    let rhs = lib("aP+bP", || a.v * l1 + a.v * l2)?;
    ensure!(alpha::<G>(&lhs) == alpha::<G>(&rhs), "distributivity", "{} (a+b)P != aP+bP for P={} a={:x} b={:x}", G::NAME, a.json(), k1, k2);
    let want = ref_mul::<G>(&mulm(&addm(k1, k2, r()), &a.d, r()));
    ensure!(alpha::<G>(&lhs) == want && alpha::<G>(&rhs) == want, "wrong-point", "{} (a+b)P wrong for P={} a={:x} b={:x}", G::NAME, a.json(), k1, k2);
    let lhs = lib("(ab)P", || a.v * (l1 * l2))?;
    let rhs = lib("a(bP)", || (a.v * l2) * l1)?;
    ensure!(alpha::<G>(&lhs) == alpha::<G>(&rhs), "associativity", "{} (ab)P != a(bP) for P={} a={:x} b={:x}", G::NAME, a.json(), k1, k2);
    let want = ref_mul::<G>(&mulm(&mulm(k1, k2, r()), &a.d, r()));
    ensure!(alpha::<G>(&lhs) == want && alpha::<G>(&rhs) == want, "wrong-point", "{} (ab)P wrong for P={} a={:x} b={:x}", G::NAME, a.json(), k1, k2);
    Ok(4)
}
pub fn c05_units<G: GroupApi>(a: &Val<G>) -> Result<u32, Bad> {
    let z = lib("0*P", || a.v * fr(&N::zero()))?;
    ensure!(alpha::<G>(&z).is_inf(), "zero-scalar", "{} 0*P is not the identity for P={}", G::NAME, a.json());
    let o = lib("1*P", || a.v * fr(&N::one()))?;
    ensure!(alpha::<G>(&o) == ref_mul::<G>(&a.d), "one-scalar", "{} 1*P != P for P={}", G::NAME, a.json());
    let m = lib("(r-1)*P", || a.v * fr(&(r() - n(1))))?;
    ensure!(alpha::<G>(&m) == ec_neg(&ref_mul::<G>(&a.d)), "minus-one", "{} (r-1)P != -P for P={}", G::NAME, a.json());
    // order exactly r: (r-1)P + P = O with the textbook sum of the two denoted points
    ensure!(ec_add(&alpha::<G>(&m), &ref_mul::<G>(&a.d)).is_inf(), "order", "{} (r-1)P + P is not the identity for P={}", G::NAME, a.json());
    Ok(4)
}
fn c05_group<G: GroupApi>(run: &Run) {
    let ks = scalars(run.tier, run.seed);
    let vs = values::<G>(run.tier, run.seed);
    let (nk, nv) = (ks.len() as u64, vs.len() as u64);
    run.note(&format!("alphabet_{}", G::NAME), json!({"scalars": nk, "concrete_values": nv}));
    run.grid(
        Spec { name: &format!("c05.{}.mul", G::NAME), n: nk * nv, classes: &["k=0", "identity-point", "nonzero"], required: &["k=0", "identity-point", "nonzero"] },
        |i| {
            let (v, k) = (&vs[(i / nk) as usize], &ks[(i % nk) as usize]);
            let t = c05_mul::<G>(v, k)?;
            let c = if k.is_zero() { 1 } else if v.d.is_zero() { 2 } else { 4 };
            Ok(Tally::new(t, !k.is_zero() && !v.d.is_zero(), c))
        },
        |i| json!({"op": "c05.mul", "group": G::NAME, "P": vs[(i / nk) as usize].json(), "k": jn(&ks[(i % nk) as usize])}),
    );
    // the oracle cross-check: integer double-and-add on a sub-grid
    let ds = dlogs(Tier::Quick, run.seed);
    let kq = scalars(Tier::Quick, run.seed);
    let (nd, nkq) = (ds.len() as u64, kq.len() as u64);
    run.grid(
        Spec { name: &format!("c05.{}.double-and-add-oracle", G::NAME), n: nd * nkq, classes: &[], required: &[] },
        |i| Ok(Tally::new(c05_oracle::<G>(&ds[(i / nkq) as usize], &kq[(i % nkq) as usize])?, true, 0)),
        |i| json!({"op": "c05.oracle", "group": G::NAME, "d": jn(&ds[(i / nkq) as usize]), "k": jn(&kq[(i % nkq) as usize])}),
    );
    run.grid(
        Spec { name: &format!("c05.{}.units", G::NAME), n: nv, classes: &[], required: &[] },
        |i| Ok(Tally::new(c05_units::<G>(&vs[i as usize])?, true, 0)),
        |i| json!({"op": "c05.units", "group": G::NAME, "P": vs[i as usize].json()}),
    );
    let sm = values_small::<G>(run.seed);
    let kl: Vec<N> = if run.tier == Tier::Quick { ks.iter().take(9).cloned().collect() } else { kq.clone() };
    let (nsm, nkl) = (sm.len() as u64, kl.len() as u64);
    run.grid(
        Spec { name: &format!("c05.{}.laws", G::NAME), n: nsm * nkl * nkl, classes: &[], required: &[] },
        |i| {
            let ix = unrank(i, &[nsm, nkl, nkl]);
            Ok(Tally::new(c05_laws::<G>(&sm[ix[0]], &kl[ix[1]], &kl[ix[2]])?, true, 0))
        },
        |i| {
            let ix = unrank(i, &[nsm, nkl, nkl]);
            json!({"op": "c05.laws", "group": G::NAME, "P": sm[ix[0]].json(), "a": jn(&kl[ix[1]]), "b": jn(&kl[ix[2]])})
        },
    );
    {
        let ct = values_coord_targets::<G>(run.seed, run.tier);
        let k9: Vec<N> = kq.iter().take(run.tier.pick(9, kq.len())).cloned().collect();
        let (nc, n9) = (ct.len() as u64, k9.len() as u64);
        run.grid(
            Spec { name: &format!("c05.{}.coordinate-targets", G::NAME), n: nc * n9, classes: &[], required: &[] },
            |i| Ok(Tally::new(c05_mul::<G>(&ct[(i / n9) as usize], &k9[(i % n9) as usize])?, true, 0)),
            |i| json!({"op": "c05.mul", "group": G::NAME, "P": ct[(i / n9) as usize].json(), "k": jn(&k9[(i % n9) as usize])}),
        );
    }
    if run.tier == Tier::Thorough {
        let sf = values_scaled_fp::<G>(run.seed, Tier::Quick);
        let (nf, nq) = (sf.len() as u64, kq.len() as u64);
        run.grid(
            Spec { name: &format!("c05.{}.scaled-fp", G::NAME), n: nf * nq, classes: &[], required: &[] },
            |i| Ok(Tally::new(c05_mul::<G>(&sf[(i / nq) as usize], &kq[(i % nq) as usize])?, true, 0)),
            |i| json!({"op": "c05.mul", "group": G::NAME, "P": sf[(i / nq) as usize].json(), "k": jn(&kq[(i % nq) as usize])}),
        );
    }
    // small-scope complete: EVERY scalar 0..=255 (4095) and r-256..r-1 on every representative of d in {1, r-1}
    let reps: Vec<Val<G>> = vs.iter().filter(|v| v.d.is_one() || v.d == r() - n(1) || v.d.is_zero()).cloned().collect();
    let span: u64 = run.tier.pick(256, 4096);
    let nr = reps.len() as u64;
    run.grid(
        Spec { name: &format!("c05.{}.every-small-scalar", G::NAME), n: nr * span * 2, classes: &[], required: &[] },
        |i| {
            let ix = unrank(i, &[nr, 2, span]);
            let k = if ix[1] == 0 { n(ix[2] as u64) } else { r() - n(1) - n(ix[2] as u64) };
            Ok(Tally::new(c05_mul::<G>(&reps[ix[0]], &k)?, ix[2] > 1, 0))
        },
        |i| {
            let ix = unrank(i, &[nr, 2, span]);
            let k = if ix[1] == 0 { n(ix[2] as u64) } else { r() - n(1) - n(ix[2] as u64) };
            json!({"op": "c05.mul", "group": G::NAME, "P": reps[ix[0]].json(), "k": jn(&k)})
        },
    );
}
pub fn c05_run(run: &Run) {
    // the order of the generators is exactly r: r is prime (model self-test), G != O, r*G = O
    c05_group::<G1>(run);
    c05_group::<G2>(run);
}
pub fn c05_meta(run: &Run) -> Meta {
    Meta {
        rule: "grid: every (k, value) over K x (D x REP + identity representatives) for P*k and k*P against the k-fold sum (reference \
               double-and-add, cached by k*d mod r, the cache itself cross-checked against integer double-and-add on a sub-grid); units \
               0, 1, r-1 on every value; (a+b)P, (ab)P on (small values) x K' x K'; EVERY scalar below the bound and EVERY scalar in the \
               top window below r on every representative of +-G and of O. Non-trivial: k and the point both non-zero."
            .into(),
        engine: "sm9mc-grid".into(),
        bounds: json!({"every_scalar_below": run.tier.pick(256, 4096)}),
        assumptions: vec!["order exactly r: r prime is checked by the model self-test (Miller-Rabin), G != O and (r-1)G + G = O by this check".into()],
    }
}

// ---------------------------------------------------------------------------------------------
// C10
// ---------------------------------------------------------------------------------------------
pub fn c10_case<G: GroupApi>(a: &Val<G>, f: Fmt) -> Result<u32, Bad> {
    let p = ref_mul::<G>(&a.d);
    let want = G::ref_encode(&p, f).expect("non-identity");
    let got = lib("encode", || a.v.encode(f))?;
    ensure!(
        got == want,
        "wrong-bytes",
        "{} {} encoding of {}: library {} , SM9 format of the reference coordinates {}",
        G::NAME,
        f.name(),
        a.json(),
        refmodel::hex(&got),
        refmodel::hex(&want)
    );
    let dec = lib("decode", || G::decode(f, &got))?;
    match dec {
        Ok(g) => {
            ensure!(alpha::<G>(&g) == p, "roundtrip", "{} decode({} encoding) denotes another point for {}", G::NAME, f.name(), a.json());
            let re = lib("encode", || g.encode(f))?;
            ensure!(re == got, "roundtrip", "{} re-encoding differs for {}", G::NAME, a.json());
        }
        Err(e) => return mccore::bad("roundtrip", format!("{} decoder rejects the {} encoding of {}: {}", G::NAME, f.name(), a.json(), e)),
    }
    Ok(3)
}
fn c10_group<G: GroupApi>(run: &Run) {
    let mut vs: Vec<Val<G>> = values::<G>(run.tier, run.seed).into_iter().filter(|v| !v.d.is_zero()).collect();
    vs.extend(values_scaled_special::<G>(run.seed));
    vs.extend(values_coord_targets::<G>(run.seed, run.tier));
    if run.tier == Tier::Thorough {
        vs.extend(values_scaled_fp::<G>(run.seed, Tier::Quick));
    }
    // every small discrete log as well: cheap, and it decorrelates the alphabet from any rule that happens to
    // agree with the SM9 parity rule on a handful of points (e.g. 'larger root' instead of 'odd root')
    for d in 4..=run.tier.pick(48u64, 2048) {
        for rp in [Rep::Aff, Rep::LibMul] {
            if let Some(v) = build::<G>(&n(d), &rp) {
                vs.push(v);
            }
        }
    }
    // byte structure of the coordinates: the first discrete logs whose affine x resp. y has a component with a
    // LEADING ZERO BYTE (1 coordinate in 182): encoders that write "significant bytes only" differ exactly there
    {
        let g = G::ref_gen();
        let mut p = g.clone();
        let (mut nx, mut ny) = (0, 0);
        let mut d = 1u64;
        while (nx < 2 || ny < 2) && d < 6000 {
            d += 1;
            p = ec_add(&p, &g);
            let raw = G::ref_encode(&p, Fmt::Raw).unwrap();
            let half = raw.len() / 2;
            let lead = |b: &[u8]| b.chunks(32).any(|c| c[0] == 0);
            let (lx, ly) = (lead(&raw[..half]), lead(&raw[half..]));
            if (lx && nx < 2) || (ly && ny < 2) {
                nx += lx as u32;
                ny += ly as u32;
                for rp in [Rep::Aff, Rep::LibMul, Rep::Scaled(G::rf_generic(run.seed, 1))] {
                    if let Some(v) = build::<G>(&n(d), &rp) {
                        vs.push(v);
                    }
                }
            }
        }
    }
    let nv = vs.len() as u64;
    const C10_CLASSES: [&str; 8] = ["prefix-02", "prefix-03", "z=1", "z!=1", "odd-root-is-the-larger-root", "odd-root-is-the-smaller-root", "x-with-a-leading-zero-byte", "y-with-a-leading-zero-byte"];
    run.grid(
        Spec { name: &format!("c10.{}", G::NAME), n: nv * 3, classes: &C10_CLASSES, required: &C10_CLASSES },
        |i| {
            let (v, f) = (&vs[(i / 3) as usize], Fmt::ALL[(i % 3) as usize]);
            let k = c10_case::<G>(v, f)?;
            let cb = G::ref_encode(&ref_mul::<G>(&v.d), Fmt::Compressed).unwrap();
            let mut c = if cb[0] == 2 { 1 } else { 2 };
            c |= if v.v.coords().2 == G::RF::one() { 4 } else { 8 };
            // first 32 bytes after the y offset of the raw encoding = the real part (G2: after the imaginary part) of y
            let raw = G::ref_encode(&ref_mul::<G>(&v.d), Fmt::Raw).unwrap();
            let yre = refmodel::from_be(&raw[raw.len() - 32..]);
            let larger = yre > (refmodel::q() - &yre);
            let odd = yre.bit(0);
            c |= if odd == larger { 16 } else { 32 };
            let half = raw.len() / 2;
            if raw[..half].chunks(32).any(|c| c[0] == 0) {
                c |= 64;
            }
            if raw[half..].chunks(32).any(|c| c[0] == 0) {
                c |= 128;
            }
            Ok(Tally::new(k, true, c))
        },
        |i| json!({"op": "c10.enc", "group": G::NAME, "P": vs[(i / 3) as usize].json(), "fmt": Fmt::ALL[(i % 3) as usize].name()}),
    );
}
/// G1 has cofactor 1: EVERY point of the curve is a group element, so points can be chosen by their x coordinate
/// (tiny x, x = 0, powers of 256, zero bytes inside) although their discrete logs are unknown
pub fn c10_g1_xs(tier: Tier) -> Vec<N> {
    let q = refmodel::q();
    let mut xs: Vec<N> = (0..=tier.pick(24u64, 2048)).map(n).collect();
    for k in 1..32 {
        xs.push(mccore::alpha::two(8 * k));
        xs.push(mccore::alpha::two(8 * k) - n(1));
        xs.push(mccore::alpha::two(8 * k) + n(1));
    }
    xs.push(refmodel::nhex(&"0100".repeat(16)));
    xs.push(refmodel::nhex(&"00ff".repeat(16)));
    xs.push(refmodel::nhex(&format!("01{}01", "00".repeat(30))));
    xs.push(q - n(1));
    xs.push(q - n(2));
    xs.push(q - n(3));
    mccore::alpha::dedup(xs)
}
pub fn c10_g1_point_case(x: &N, neg: bool, scale: u64, f: Fmt) -> Result<u32, Bad> {
    use refmodel::Fq as RFq;
    let q = refmodel::q();
    let y2 = (x.modpow(&n(3), q) + n(5)) % q;
    let y = match refmodel::sqrt_mod(&y2, q) {
        Some(y) => if neg { (q - &y) % q } else { y },
        None => return Ok(0),
    };
    let p = Pt::Aff(RFq(x.clone()), RFq(y.clone()));
    assert!(on_curve(&p, &refmodel::b1()));
    let sc = RFq(n(scale));
    let s2 = sc.sq();
    let v = lib("G1::new", || <G1 as GroupApi>::new_jac(&s2.mul(&RFq(x.clone())), &s2.mul(&sc).mul(&RFq(y.clone())), &sc))?;
    let want = <G1 as GroupApi>::ref_encode(&p, f).unwrap();
    let got = lib("encode", || GroupApi::encode(&v, f))?;
    ensure!(got == want, "wrong-bytes", "G1 {} encoding of the point x={:x} y={:x} (z={}): library {} , SM9 format {}", f.name(), x, y, scale, refmodel::hex(&got), refmodel::hex(&want));
    match lib("decode", || <G1 as GroupApi>::decode(f, &got))? {
        Ok(g) => {
            ensure!(alpha::<G1>(&g) == p, "roundtrip", "G1 decode({} encoding) denotes another point for x={:x}", f.name(), x);
            ensure!(lib("encode", || GroupApi::encode(&g, f))? == got, "roundtrip", "G1 re-encoding differs for x={:x}", x);
        }
        Err(e) => return mccore::bad("roundtrip", format!("G1 decoder rejects the {} encoding of the curve point x={:x} y={:x}: {}", f.name(), x, y, e)),
    }
    Ok(3)
}
fn c10_g1_points(run: &Run) {
    let xs = c10_g1_xs(run.tier);
    let nx = xs.len() as u64;
    const CL: [&str; 3] = ["carries-a-point", "x<2^128", "y-with-a-leading-zero-byte"];
    run.grid(
        Spec { name: "c10.G1.points-by-x", n: nx * 2 * 2 * 3, classes: &CL, required: &["carries-a-point", "x<2^128"] },
        |i| {
            let ix = unrank(i, &[nx, 2, 2, 3]);
            let x = &xs[ix[0]];
            let k = c10_g1_point_case(x, ix[1] == 1, [1u64, 2][ix[2]], Fmt::ALL[ix[3]])?;
            let mut c = 0;
            if k > 0 {
                c |= 1;
                if x.bits() <= 128 {
                    c |= 2;
                }
            }
            Ok(Tally::new(k, k > 0, c))
        },
        |i| {
            let ix = unrank(i, &[nx, 2, 2, 3]);
            let sc: u64 = if ix[2] == 0 { 1 } else { 2 };
            json!({"op": "c10.g1pt", "x": jn(&xs[ix[0]]), "neg": ix[1] == 1, "scale": sc, "fmt": Fmt::ALL[ix[3]].name()})
        },
    );
}
pub fn c10_run(run: &Run) {
    c10_group::<G1>(run);
    c10_group::<G2>(run);
    c10_g1_points(run);
}
pub fn c10_meta(_run: &Run) -> Meta {
    Meta {
        rule: "grid: every non-identity concrete value (D x all representatives, plus Scaled(s) for every special field value s) x the three \
               formats, for G1 and G2: library bytes must equal the SM9 format of the REFERENCE model's affine coordinates (big-endian, \
               imaginary part first, prefix by parity of y / of the real part of y), decode to a value == P denoting the same point, and \
               re-encode identically. d and r-d are both in D so both parities occur. Byte structure: the first discrete logs whose \
               x / y has a leading zero byte (classes required), and - G1 having cofactor 1 - curve points chosen by x (every small x, \
               0, 256^k and neighbours, zero bytes inside) in both signs of y, z = 1 and z = 2."
            .into(),
        engine: "sm9mc-grid".into(),
        bounds: json!({}),
        assumptions: vec!["encoding the identity is a documented unwrap panic and outside the property".into()],
    }
}

// ---------------------------------------------------------------------------------------------
// C15
// ---------------------------------------------------------------------------------------------
pub fn c15_pair<G: GroupApi>(a: &Val<G>, b: &Val<G>) -> Result<u32, Bad> {
    let same = a.d == b.d;
    let e1 = lib("A==B", || a.v == b.v)?;
    let e2 = lib("B==A", || b.v == a.v)?;
    let n1 = lib("A!=B", || a.v != b.v)?;
    ensure!(e1 == same, "eq", "{} (A == B) = {} but the group elements are {} : A={} B={}", G::NAME, e1, if same { "equal" } else { "different" }, a.json(), b.json());
    ensure!(e2 == same, "eq-symmetry", "{} (B == A) = {} but (A == B) = {} : A={} B={}", G::NAME, e2, e1, a.json(), b.json());
    ensure!(n1 == !same, "ne", "{} (A != B) = {} inconsistent : A={} B={}", G::NAME, n1, a.json(), b.json());
    Ok(3)
}
pub fn c15_unary<G: GroupApi>(a: &Val<G>) -> Result<u32, Bad> {
    let p = ref_mul::<G>(&a.d);
    let iz = lib("is_zero", || a.v.is_zero())?;
    ensure!(iz == a.d.is_zero(), "is_zero", "{} is_zero = {} for {}", G::NAME, iz, a.json());
    let refl = lib("A==A", || a.v == a.v)?;
    ensure!(refl, "eq-reflexive", "{} A == A is false for {}", G::NAME, a.json());
    let mut nm = a.v;
    lib("normalize", || nm.normalize())?;
    ensure!(alpha::<G>(&nm) == p, "normalize", "{} normalize changed the denoted point of {}", G::NAME, a.json());
    let eq = lib("==", || nm == a.v)?;
    ensure!(eq, "normalize", "{} normalize(A) != A for {}", G::NAME, a.json());
    let z = nm.coords().2;
    if a.d.is_zero() {
        ensure!(lib("is_zero", || nm.is_zero())?, "normalize", "{} normalize of an identity is no longer the identity: {}", G::NAME, a.json());
    } else {
        ensure!(z == G::RF::one(), "normalize", "{} normalize leaves z != 1 for {}", G::NAME, a.json());
        let (x, y, _) = nm.coords();
        ensure!(Pt::Aff(x, y) == p, "normalize", "{} normalized coordinates are not the affine coordinates for {}", G::NAME, a.json());
    }
    let aff = lib("from_jacobian", || a.v.affine_xy())?;
    match (aff, p.xy()) {
        (None, None) => {}
        (Some((x, y)), Some((rx, ry))) => {
            ensure!(&x == rx && &y == ry, "affine", "{} AffineG::from_jacobian gives other coordinates for {}", G::NAME, a.json());
            let back = lib("from affine", || a.v.affine_roundtrip())?.expect("some");
            ensure!(lib("==", || back == a.v)?, "affine", "{} G::from(AffineG::from_jacobian(A)) != A for {}", G::NAME, a.json());
            ensure!(alpha::<G>(&back) == p, "affine", "{} affine round trip denotes another point for {}", G::NAME, a.json());
        }
        (g, _) => return mccore::bad("affine", format!("{} AffineG::from_jacobian is_some={} for {}", G::NAME, g.is_some(), a.json())),
    }
    Ok(7)
}
fn c15_group<G: GroupApi>(run: &Run) {
    let mut vs = values::<G>(run.tier, run.seed);
    if run.tier == Tier::Thorough {
        vs.extend(values_scaled_special::<G>(run.seed));
    }
    let nn = vs.len() as u64;
    const CL: [&str; 6] = ["same-element-different-representative", "P-vs-minus-P", "P-vs-identity", "identity-vs-identity", "same-y-different-x", "different"];
    run.grid(
        Spec { name: &format!("c15.{}.pair", G::NAME), n: nn * nn, classes: &CL, required: &CL },
        |i| {
            let (a, b) = (&vs[(i / nn) as usize], &vs[(i % nn) as usize]);
            let k = c15_pair::<G>(a, b)?;
            let lam = &refmodel::consts().lambda;
            let c = if a.d.is_zero() && b.d.is_zero() {
                8
            } else if a.d.is_zero() || b.d.is_zero() {
                4
            } else if a.d == b.d {
                if a.rep != b.rep { 1 } else { 0 }
            } else if addm(&a.d, &b.d, r()).is_zero() {
                2
            } else if mulm(&a.d, lam, r()) == b.d {
                16
            } else {
                32
            };
            Ok(Tally::new(k, true, c))
        },
        |i| json!({"op": "c15.pair", "group": G::NAME, "A": vs[(i / nn) as usize].json(), "B": vs[(i % nn) as usize].json()}),
    );
    {
        let ct = values_coord_targets::<G>(run.seed, run.tier);
        let sm = values_small::<G>(run.seed);
        let (nc, nm) = (ct.len() as u64, sm.len() as u64);
        run.grid(
            Spec { name: &format!("c15.{}.coordinate-targets", G::NAME), n: nc * nm, classes: &[], required: &[] },
            |i| {
                let (a, b) = (&ct[(i / nm) as usize], &sm[(i % nm) as usize]);
                let mut k = c15_pair::<G>(a, b)?;
                k += c15_pair::<G>(b, a)?;
                Ok(Tally::new(k, true, 0))
            },
            |i| json!({"op": "c15.pair2", "group": G::NAME, "A": ct[(i / nm) as usize].json(), "B": sm[(i % nm) as usize].json()}),
        );
        run.grid(
            Spec { name: &format!("c15.{}.coordinate-targets.unary", G::NAME), n: nc, classes: &[], required: &[] },
            |i| Ok(Tally::new(c15_unary::<G>(&ct[i as usize])?, true, 0)),
            |i| json!({"op": "c15.unary", "group": G::NAME, "A": ct[i as usize].json()}),
        );
    }
    {
        // (thorough also has these values inside the complete pair table) every special rescaling - 2, -1, the cube roots
        // of unity (same Y, other Z), sqrt(-1) (same X up to sign), stored-word specials - against the small set, both orders
        let ss = values_scaled_special::<G>(run.seed);
        let sm = values_small::<G>(run.seed);
        let (nf, nm) = (ss.len() as u64, sm.len() as u64);
        run.grid(
            Spec { name: &format!("c15.{}.scaled-special", G::NAME), n: nf * nm, classes: &[], required: &[] },
            |i| {
                let (a, b) = (&ss[(i / nm) as usize], &sm[(i % nm) as usize]);
                let mut k = c15_pair::<G>(a, b)?;
                k += c15_pair::<G>(b, a)?;
                Ok(Tally::new(k, true, 0))
            },
            |i| json!({"op": "c15.pair2", "group": G::NAME, "A": ss[(i / nm) as usize].json(), "B": sm[(i % nm) as usize].json()}),
        );
    }
    if run.tier == Tier::Thorough {
        let sf = values_scaled_fp::<G>(run.seed, Tier::Thorough);
        let sm = values_small::<G>(run.seed);
        let (nf, nm) = (sf.len() as u64, sm.len() as u64);
        run.grid(
            Spec { name: &format!("c15.{}.scaled-fp", G::NAME), n: nf * nm, classes: &[], required: &[] },
            |i| {
                let (a, b) = (&sf[(i / nm) as usize], &sm[(i % nm) as usize]);
                let mut k = c15_pair::<G>(a, b)?;
                k += c15_pair::<G>(b, a)?;
                Ok(Tally::new(k, true, 0))
            },
            |i| json!({"op": "c15.pair2", "group": G::NAME, "A": sf[(i / nm) as usize].json(), "B": sm[(i % nm) as usize].json()}),
        );
        run.grid(
            Spec { name: &format!("c15.{}.scaled-fp.unary", G::NAME), n: nf, classes: &[], required: &[] },
            |i| Ok(Tally::new(c15_unary::<G>(&sf[i as usize])?, true, 0)),
            |i| json!({"op": "c15.unary", "group": G::NAME, "A": sf[i as usize].json()}),
        );
    }
    run.grid(
        Spec { name: &format!("c15.{}.unary", G::NAME), n: nn, classes: &[], required: &[] },
        |i| Ok(Tally::new(c15_unary::<G>(&vs[i as usize])?, true, 0)),
        |i| json!({"op": "c15.unary", "group": G::NAME, "A": vs[i as usize].json()}),
    );
}
pub fn c15_run(run: &Run) {
    c15_group::<G1>(run);
    c15_group::<G2>(run);
}
pub fn c15_meta(_run: &Run) -> Meta {
    Meta {
        rule: "grid: every ordered pair over all concrete values (D x 8 representatives + 8 identity representatives, including new(x,y,0)) \
               for ==, != in both orders, decided by the discrete logs; is_zero, reflexivity, normalize, AffineG::from_jacobian and \
               From<AffineG> on every value. The exhaustive pair table makes == reflexive/symmetric/transitive by construction."
            .into(),
        engine: "sm9mc-grid".into(),
        bounds: json!({}),
        assumptions: vec!["normalize() of a z = 0 value may or may not canonicalise it; only 'still the identity' is required".into()],
    }
}

// ---------------------------------------------------------------------------------------------
// replay
// ---------------------------------------------------------------------------------------------
fn replay_g<G: GroupApi>(c: &Value) -> Result<(), Bad> {
    let val = |k: &str| Val::<G>::from_json(&c[k]);
    match gs(c, "op").as_str() {
        "c04.pair" => c04_pair::<G>(&val("A"), &val("B")).map(|_| ()),
        "c04.pair2" => c04_pair::<G>(&val("A"), &val("B")).and_then(|_| c04_pair::<G>(&val("B"), &val("A"))).map(|_| ()),
        "c04.unary" => c04_unary::<G>(&val("A")).map(|_| ()),
        "c04.triple" => c04_triple::<G>(&val("A"), &val("B"), &val("C")).map(|_| ()),
        "c05.mul" => c05_mul::<G>(&val("P"), &(gn(c, "k") % r())).map(|_| ()),
        "c05.oracle" => c05_oracle::<G>(&gn(c, "d"), &gn(c, "k")).map(|_| ()),
        "c05.units" => c05_units::<G>(&val("P")).map(|_| ()),
        "c05.laws" => c05_laws::<G>(&val("P"), &gn(c, "a"), &gn(c, "b")).map(|_| ()),
        "c10.enc" => {
            let f = match gs(c, "fmt").as_str() {
                "raw" => Fmt::Raw,
                "uncompressed" => Fmt::Uncompressed,
                _ => Fmt::Compressed,
            };
            c10_case::<G>(&val("P"), f).map(|_| ())
        }
        "c10.g1pt" => {
            let f = match gs(c, "fmt").as_str() {
                "raw" => Fmt::Raw,
                "uncompressed" => Fmt::Uncompressed,
                _ => Fmt::Compressed,
            };
            return c10_g1_point_case(&gn(c, "x"), c["neg"].as_bool().unwrap_or(false), c["scale"].as_u64().unwrap_or(1), f).map(|_| ());
        }
        "c15.pair" => c15_pair::<G>(&val("A"), &val("B")).map(|_| ()),
        "c15.pair2" => c15_pair::<G>(&val("A"), &val("B")).and_then(|_| c15_pair::<G>(&val("B"), &val("A"))).map(|_| ()),
        "c15.unary" => c15_unary::<G>(&val("A")).map(|_| ()),
        o => panic!("unknown op {}", o),
    }
}
pub fn replay(c: &Value) -> Result<(), Bad> {
    if gs(c, "group") == "G1" {
        replay_g::<G1>(c)
    } else {
        replay_g::<G2>(c)
    }
}
#[allow(dead_code)]
fn unused() {
    let _ = (subm(&n(1), &n(1), r()), rep_from_json::<G1>);
}

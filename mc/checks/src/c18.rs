//! C18 — results do not depend on the build profile.
//!
//! Two halves:
//!  (a) transcript comparison: the same drivers, compiled into the release and the dbg binary
//!      (debug assertions + overflow checks), emit one observation record per case (result bytes /
//!      Err variant / None / panic text) over the union of the quick alphabets; records are folded into
//!      chunk digests, the digests are compared chunk by chunk and a differing chunk is re-run with
//!      full records to name the first differing case. No oracle is involved, so this also covers
//!      what the other properties leave unconstrained (Err variants, which root, identity coordinates);
//!  (b) the oracle-carrying checks themselves are re-run in the dbg binary: any debug-only
//!      assertion or overflow check that fires there is a "panic" violation of C18.

use crate::api::{guard, GroupApi, Val};
use crate::fp::FpApi;
use mccore::alpha::{fp_alpha, fp_small, scalars, special};
use mccore::{Bad, Meta, Run, Tier};
use num_traits::Zero;
use rayon::prelude::*;
use refmodel::{n, q, r, Fmt, N};
use serde_json::{json, Value};
use std::sync::Arc;
use sm9_core::{fast_pairing, pairing, Fq, Fq2, Fr, G2Prepared, Group, Gt, G1, G2};

const CHUNK: u64 = 512;

fn hx(b: &[u8]) -> String {
    refmodel::hex(b)
}
fn rec<T>(f: impl FnOnce() -> T, show: impl FnOnce(T) -> String) -> String {
    match guard(f) {
        Ok(v) => show(v),
        Err(p) => format!("PANIC({})", p),
    }
}
fn g_show<G: GroupApi>(g: &G) -> String {
    let (x, y, z) = g.coords();
    format!("{}|{}|{}", hx(&G::rf_bytes(&x)), hx(&G::rf_bytes(&y)), hx(&G::rf_bytes(&z)))
}

pub struct Driver {
    pub name: String,
    pub n: u64,
    pub f: Box<dyn Fn(u64) -> String + Send + Sync>,
}

fn fp_drivers<F: FpApi>(seed: u64, out: &mut Vec<Driver>) {
    let p = F::modulus().clone();
    let al = fp_alpha(&p, Tier::Quick, seed);
    let vals: Vec<N> = al.all.clone();
    let lv: Vec<F> = crate::fp::lift::<F>(&vals);
    let nn = vals.len() as u64;
    {
        let lv = lv.clone();
        out.push(Driver {
            name: format!("{}.pair", F::NAME),
            n: nn * nn,
            f: Box::new(move |i| {
                let (a, b) = (lv[(i / nn) as usize], lv[(i % nn) as usize]);
                rec(|| (a + b, a - b, a * b, a == b), |(s, d, m, e)| format!("{}{}{}{}", hx(&s.bytes()), hx(&d.bytes()), hx(&m.bytes()), e))
            }),
        });
    }
    {
        let lv = lv.clone();
        let exps: Vec<F> = [n(0), n(1), n(2), n(3), &p - n(1), &p - n(2), (&p - n(1)) / n(2), (&p - n(1)) / n(4)].iter().map(|e| F::from_n(e)).collect();
        out.push(Driver {
            name: format!("{}.unary", F::NAME),
            n: nn,
            f: Box::new(move |i| {
                let a = lv[i as usize];
                let mut s = rec(|| (-a, a.inv(), a.is_zero_(), a.is_even_()), |(ng, iv, z, ev)| format!("{}{:?}{}{:?}", hx(&ng.bytes()), iv.map(|v| hx(&v.bytes())), z, ev));
                for e in &exps {
                    s.push_str(&rec(|| a.pow_(e), |v| hx(&v.bytes())));
                }
                s
            }),
        });
    }
    let bs = crate::c13::int_bytes(&p, seed, 70, false);
    out.push(Driver {
        name: format!("{}.from_bytes", F::NAME),
        n: bs.len() as u64,
        f: Box::new(move |i| {
            let b = &bs[i as usize];
            let mut s = rec(|| F::from_slice_(b), |v| format!("{:?}", v.map(|x| hx(&x.bytes()))));
            s.push_str(&rec(|| F::try_from_(b), |v| format!("{:?}", v.map(|x| hx(&x.bytes())))));
            if b.len() == 64 {
                let mut a = [0u8; 64];
                a.copy_from_slice(b);
                s.push_str(&rec(|| F::interpret_(&a), |v| hx(&v.bytes())));
            }
            s
        }),
    });
    out.push(Driver {
        name: format!("{}.every-bytes-len<=2", F::NAME),
        n: 65793,
        f: Box::new(move |i| {
            let b: Vec<u8> = if i == 0 { vec![] } else if i <= 256 { vec![(i - 1) as u8] } else { vec![((i - 257) >> 8) as u8, (i - 257) as u8] };
            rec(|| F::from_slice_(&b), |v| format!("{:?}", v.map(|x| hx(&x.bytes()))))
        }),
    });
    let ss = crate::c13::strings(&p, seed);
    out.push(Driver {
        name: format!("{}.from_str", F::NAME),
        n: ss.len() as u64,
        f: Box::new(move |i| rec(|| F::from_str_(&ss[i as usize]), |v| format!("{:?}", v.map(|x| hx(&x.bytes()))))),
    });
}

pub fn drivers(seed: u64) -> Vec<Driver> {
    let mut out: Vec<Driver> = vec![];
    fp_drivers::<Fq>(seed, &mut out);
    fp_drivers::<Fr>(seed, &mut out);
    // Fr: from_hash, set_bit ; Fq: sqrt, to_big_endian
    let hb = crate::c13::int_bytes(r(), seed ^ 0x4a5, 70, false);
    out.push(Driver { name: "Fr.from_hash".into(), n: hb.len() as u64, f: Box::new(move |i| rec(|| Fr::from_hash(&hb[i as usize]), |v| format!("{:?}", v.map(|x| hx(&x.to_slice()))))) });
    let xs: Vec<N> = {
        let mut v = special(r());
        v.extend(fp_small(r(), 16, seed));
        mccore::alpha::dedup(v)
    };
    let nx = xs.len() as u64;
    out.push(Driver {
        name: "Fr.set_bit".into(),
        n: nx * 602,
        f: Box::new(move |i| {
            let mut x = Fr::from_n(&xs[(i / 602) as usize]);
            let (bit, v) = (((i % 602) / 2) as usize, i % 2 == 1);
            rec(|| { x.set_bit(bit, v); x }, |x| hx(&x.to_slice()))
        }),
    });
    let qa = fp_alpha(q(), Tier::Quick, seed).all;
    {
        let qa = qa.clone();
        out.push(Driver { name: "Fq.sqrt".into(), n: qa.len() as u64, f: Box::new(move |i| rec(|| Fq::from_n(&qa[i as usize]).sqrt(), |v| format!("{:?}", v.map(|x| hx(&x.to_slice()))))) });
    }
    let qs = fp_small(q(), 16, seed);
    out.push(Driver {
        name: "Fq.to_big_endian".into(),
        n: 16 * 71,
        f: Box::new(move |i| {
            let mut buf = vec![0u8; (i % 71) as usize];
            let x = Fq::from_n(&qs[(i / 71) as usize]);
            rec(|| { let r = x.to_big_endian(&mut buf); (r.is_ok(), buf.clone()) }, |(ok, b)| format!("{}{}", ok, hx(&b)))
        }),
    });
    // Fq2
    let a2 = crate::c12::fq2_alpha(14, seed);
    let l2: Vec<Fq2> = a2.iter().map(crate::api::fq2).collect();
    let n2 = l2.len() as u64;
    {
        let l2 = l2.clone();
        out.push(Driver {
            name: "Fq2.pair".into(),
            n: n2 * n2,
            f: Box::new(move |i| {
                let (a, b) = (l2[(i / n2) as usize], l2[(i % n2) as usize]);
                rec(|| (a + b, a - b, a * b, a == b), |(s, d, m, e)| format!("{}{}{}{}", hx(&s.to_slice()), hx(&d.to_slice()), hx(&m.to_slice()), e))
            }),
        });
    }
    {
        let l2 = l2.clone();
        out.push(Driver {
            name: "Fq2.unary".into(),
            n: n2,
            f: Box::new(move |i| {
                let a = l2[i as usize];
                rec(|| (-a, a.sqrt(), a.is_even(), a.is_zero()), |(ng, s, e, z)| format!("{}{:?}{}{}", hx(&ng.to_slice()), s.map(|x| hx(&x.to_slice())), e, z))
            }),
        });
    }
    // decoders on the C08 corpus
    fn dec<G: GroupApi>(seed: u64, out: &mut Vec<Driver>) {
        let cp = crate::c08::corpus::<G>(Tier::Quick, seed).items;
        out.push(Driver {
            name: format!("{}.decode", G::NAME),
            n: cp.len() as u64,
            f: Box::new(move |i| {
                let (f, b) = &cp[i as usize];
                rec(|| G::decode(*f, b), |v| match v {
                    Ok(g) => format!("Ok({})", g_show::<G>(&g)),
                    Err(e) => format!("Err({})", e),
                })
            }),
        });
    }
    dec::<G1>(seed, &mut out);
    dec::<G2>(seed, &mut out);
    let fb: Vec<Vec<u8>> = (0..=140usize).flat_map(|l| vec![vec![0u8; l], vec![0xFF; l]]).collect();
    out.push(Driver { name: "Fq2.from_slice".into(), n: fb.len() as u64, f: Box::new(move |i| rec(|| Fq2::from_slice(&fb[i as usize]), |v| format!("{:?}", v.map(|x| hx(&x.to_slice()))))) });
    // group layer
    fn grp<G: GroupApi>(seed: u64, out: &mut Vec<Driver>) {
        let vs: Vec<Val<G>> = crate::grp::values::<G>(Tier::Quick, seed);
        let nn = vs.len() as u64;
        {
            let vs = vs.clone();
            out.push(Driver {
                name: format!("{}.pair", G::NAME),
                n: nn * nn,
                f: Box::new(move |i| {
                    let (a, b) = (vs[(i / nn) as usize].v, vs[(i % nn) as usize].v);
                    rec(|| (a + b, a - b, a == b), |(s, d, e)| format!("{};{};{}", g_show::<G>(&s), g_show::<G>(&d), e))
                }),
            });
        }
        {
            let vs = vs.clone();
            out.push(Driver {
                name: format!("{}.unary", G::NAME),
                n: nn,
                f: Box::new(move |i| {
                    let v = &vs[i as usize];
                    let a = v.v;
                    let mut s = rec(|| { let mut m = a; m.normalize(); (-a, m, a.is_zero(), a.affine_xy().is_some()) }, |(ng, m, z, af)| format!("{};{};{};{}", g_show::<G>(&ng), g_show::<G>(&m), z, af));
                    if !v.d.is_zero() {
                        for f in Fmt::ALL {
                            s.push_str(&rec(|| a.encode(f), |b| hx(&b)));
                        }
                    }
                    s
                }),
            });
        }
        let ks = scalars(Tier::Quick, seed);
        let nk = ks.len() as u64;
        out.push(Driver {
            name: format!("{}.mul", G::NAME),
            n: nn * nk,
            f: Box::new(move |i| {
                let (a, k) = (vs[(i / nk) as usize].v, crate::api::fr(&ks[(i % nk) as usize]));
                rec(|| (a * k, G::lmul(k, a)), |(x, y)| format!("{};{}", g_show::<G>(&x), g_show::<G>(&y)))
            }),
        });
    }
    grp::<G1>(seed, &mut out);
    grp::<G2>(seed, &mut out);
    // pairing layer
    let v1 = crate::grp::values_small::<G1>(seed);
    let v2 = crate::grp::values_small::<G2>(seed);
    let (m1, m2) = (v1.len() as u64, v2.len() as u64);
    out.push(Driver {
        name: "pairings".into(),
        n: m1 * m2,
        f: Box::new(move |i| {
            let (p, qq) = (v1[(i / m2) as usize].v, v2[(i % m2) as usize].v);
            let mut s = rec(|| pairing(p, qq), |g| hx(&g.to_slice()));
            s.push_str(&rec(|| fast_pairing(p, qq), |g| hx(&g.to_slice())));
            s.push_str(&rec(|| G2Prepared::from(qq).pairing(&p), |g| hx(&g.to_slice())));
            s
        }),
    });
    let ks = scalars(Tier::Quick, seed);
    let nk = ks.len() as u64;
    out.push(Driver {
        name: "Gt".into(),
        n: nk * nk,
        f: Box::new(move |i| {
            let g = pairing(G1::one(), G2::one());
            let (a, b) = (crate::api::fr(&ks[(i / nk) as usize]), crate::api::fr(&ks[(i % nk) as usize]));
            rec(|| { let x = g.pow(a); let y = g.pow(b); (x * y, x.inverse(), x == y, Gt::one()) }, |(m, iv, e, o)| format!("{}{:?}{}{}", hx(&m.to_slice()), iv.map(|v| hx(&v.to_slice()[..16])), e, hx(&o.to_slice()[..8])))
        }),
    });
    out
}

fn digest(acc: &mut (u64, u64), s: &str) {
    for b in s.bytes() {
        acc.0 ^= b as u64;
        acc.0 = acc.0.wrapping_mul(0x100000001b3);
        acc.1 = (acc.1 ^ (b as u64)).wrapping_mul(0x9E3779B97F4A7C15).rotate_left(23);
    }
    acc.0 ^= 0xff;
    acc.0 = acc.0.wrapping_mul(0x100000001b3);
}
/// per-case time limit of the oracle-free drivers (same knob as the explorers' watchdog)
fn case_timeout() -> std::time::Duration {
    std::time::Duration::from_secs(std::env::var("VERIF_CASE_TIMEOUT_S").ok().and_then(|s| s.parse().ok()).unwrap_or(30))
}
const HANG: &str = "NON-TERMINATION";
/// chunk digests of one driver, or Err(index) of a case that did not return within the case timeout. The work
/// runs on the rayon pool from a helper thread; this thread watches per-worker (start time, case index) slots.
/// After an Err the stuck worker is abandoned: the caller must wind the process down.
fn chunk_digests(d: &Arc<Driver>) -> Result<Vec<(String, u64)>, u64> {
    use std::sync::atomic::{AtomicU64, Ordering::SeqCst};
    let nslots = rayon::current_num_threads() + 1;
    let slots: Arc<Vec<(AtomicU64, AtomicU64)>> = Arc::new((0..nslots).map(|_| (AtomicU64::new(0), AtomicU64::new(0))).collect());
    let t0 = std::time::Instant::now();
    let (tx, rx) = std::sync::mpsc::channel();
    {
        let (d, slots) = (d.clone(), slots.clone());
        std::thread::spawn(move || {
            let nchunks = (d.n + CHUNK - 1) / CHUNK;
            let out: Vec<(String, u64)> = (0..nchunks)
                .into_par_iter()
                .map(|c| {
                    let slot = &slots[rayon::current_thread_index().map(|i| i + 1).unwrap_or(0).min(slots.len() - 1)];
                    let mut acc = (0xcbf29ce484222325u64, 0x1234567u64);
                    let mut panics = 0u64;
                    for i in c * CHUNK..((c + 1) * CHUNK).min(d.n) {
                        slot.1.store(i, SeqCst);
                        slot.0.store(t0.elapsed().as_millis() as u64 + 1, SeqCst);
                        let r = (d.f)(i);
                        slot.0.store(0, SeqCst);
                        if r.contains("PANIC(") {
                            panics += 1;
                        }
                        digest(&mut acc, &r);
                    }
                    (format!("{:016x}{:016x}", acc.0, acc.1), panics)
                })
                .collect();
            let _ = tx.send(out);
        });
    }
    let limit = case_timeout().as_millis() as u64;
    loop {
        match rx.recv_timeout(std::time::Duration::from_millis(250)) {
            Ok(v) => return Ok(v),
            Err(std::sync::mpsc::RecvTimeoutError::Timeout) => {
                let now = t0.elapsed().as_millis() as u64 + 1;
                for sl in slots.iter() {
                    let st = sl.0.load(SeqCst);
                    if st != 0 && now.saturating_sub(st) > limit {
                        return Err(sl.1.load(SeqCst));
                    }
                }
            }
            Err(_) => panic!("transcript worker died"),
        }
    }
}
/// one record under the case timeout (the thread is abandoned on a hang)
fn record_with_timeout(d: &Arc<Driver>, i: u64) -> String {
    let (tx, rx) = std::sync::mpsc::channel();
    let d = d.clone();
    std::thread::Builder::new().stack_size(16 << 20).spawn(move || { let _ = tx.send((d.f)(i)); }).unwrap();
    rx.recv_timeout(case_timeout()).unwrap_or_else(|_| HANG.to_string())
}

/// child side: print all chunk digests; a case that does not terminate ends the transcript with a "hang" entry
pub fn transcript_main(seed: u64) {
    let ds = drivers(seed);
    let mut m = serde_json::Map::new();
    for d in ds {
        let d = Arc::new(d);
        match chunk_digests(&d) {
            Ok(cd) => {
                m.insert(d.name.clone(), json!({"n": d.n, "chunks": cd.iter().map(|c| c.0.clone()).collect::<Vec<_>>(), "panics": cd.iter().map(|c| c.1).sum::<u64>()}));
            }
            Err(i) => {
                m.insert("hang".into(), json!({"driver": d.name, "index": i}));
                println!("{}", Value::Object(m));
                std::process::exit(0);
            }
        }
    }
    println!("{}", Value::Object(m));
}
/// child side: print the full records of one chunk (or one case)
pub fn records_main(seed: u64, driver: &str, from: u64, to: u64) {
    let ds = drivers(seed);
    let d = Arc::new(ds.into_iter().find(|d| d.name == driver).expect("driver"));
    let mut recs: Vec<String> = vec![];
    for i in from..to.min(d.n) {
        let r = record_with_timeout(&d, i);
        let hung = r == HANG;
        recs.push(r);
        if hung {
            // the rest of the range is not executed (one abandoned thread is enough)
            break;
        }
    }
    println!("{}", json!(recs));
    std::process::exit(0);
}

fn child_json(args: &[String], seed: u64) -> Result<Value, String> {
    let bin = std::env::var("SM9MC_DBG_BIN").map_err(|_| "SM9MC_DBG_BIN is not set (use ./check)".to_string())?;
    let o = std::process::Command::new(&bin).args(args).env("VERIF_SEED", seed.to_string()).output().map_err(|e| format!("cannot start {}: {}", bin, e))?;
    let txt = String::from_utf8_lossy(&o.stdout);
    let last = txt.lines().rev().find(|l| l.starts_with('{') || l.starts_with('[')).ok_or_else(|| format!("no JSON from the dbg child (status {:?})", o.status.code()))?;
    serde_json::from_str(last).map_err(|e| e.to_string())
}
/// the dbg build's record of one case ("NON-TERMINATION" if it does not return there)
fn child_record(driver: &str, i: u64, seed: u64) -> Result<String, String> {
    let rs = child_json(&["records".into(), driver.to_string(), i.to_string(), (i + 1).to_string()], seed)?;
    Ok(rs[0].as_str().unwrap_or("").to_string())
}

/// returns false when a stuck worker thread had to be abandoned (the caller stops exploring)
pub fn compare_transcripts(run: &Run) -> bool {
    let t0 = std::time::Instant::now();
    let child = match child_json(&["transcript".to_string()], run.seed) {
        Ok(v) => v,
        Err(e) => {
            run.machinery_error(format!("transcript of the dbg build: {}", e));
            return true;
        }
    };
    let ds: Vec<Arc<Driver>> = drivers(run.seed).into_iter().map(Arc::new).collect();
    // a case that does not terminate in one profile: compare with the other profile on exactly that case
    let hang_case = |d: &Arc<Driver>, i: u64, rel: String, dbg: String| {
        if rel == HANG && dbg == HANG {
            run.machinery_error(format!(
                "driver {} case {} does not terminate in either build profile: the profiles cannot be compared beyond it (termination is C07's subject)",
                d.name, i
            ));
        } else {
            let cls = if dbg == HANG { "debug-only-non-termination" } else { "release-only-non-termination" };
            run.record_fail(
                &format!("c18.transcript.{}", d.name),
                i,
                Bad { class: cls.into(), msg: format!("driver {} case {}: release build observes {} , dbg build observes {}", d.name, i, mccore::truncate(&rel, 300), mccore::truncate(&dbg, 300)) },
                || json!({"op": "c18.case", "driver": d.name, "index": i}),
            );
        }
    };
    if let Some(h) = child.get("hang") {
        let (name, i) = (h["driver"].as_str().unwrap_or("").to_string(), h["index"].as_u64().unwrap_or(0));
        let d = ds.iter().find(|d| d.name == name).expect("driver");
        let rel = record_with_timeout(d, i);
        let abandoned = rel == HANG;
        hang_case(d, i, rel, HANG.to_string());
        return !abandoned;
    }
    let mut cases = 0u64;
    let mut chunks = 0u64;
    let mut summary = vec![];
    for d in &ds {
        let mine = match chunk_digests(d) {
            Ok(m) => m,
            Err(i) => {
                let dbg = child_record(&d.name, i, run.seed).unwrap_or_else(|e| format!("(no record: {})", e));
                hang_case(d, i, HANG.to_string(), dbg);
                return false;
            }
        };
        let theirs = &child[&d.name];
        let tn = theirs["n"].as_u64().unwrap_or(0);
        if tn != d.n {
            run.machinery_error(format!("transcript driver {}: {} cases here, {} in the dbg build (non-deterministic alphabet?)", d.name, d.n, tn));
            continue;
        }
        cases += d.n;
        chunks += mine.len() as u64;
        let tc = theirs["chunks"].as_array().cloned().unwrap_or_default();
        let mut diffs = 0;
        for (c, (dg, _)) in mine.iter().enumerate() {
            if tc.get(c).and_then(|x| x.as_str()) != Some(dg.as_str()) {
                diffs += 1;
                if diffs > 3 {
                    continue;
                }
                // re-run this chunk with full records on both sides
                let (from, to) = (c as u64 * CHUNK, ((c as u64 + 1) * CHUNK).min(d.n));
                let recs = child_json(&["records".into(), d.name.clone(), from.to_string(), to.to_string()], run.seed);
                match recs {
                    Ok(Value::Array(rs)) => {
                        for i in from..to {
                            let a = (d.f)(i);
                            let b = rs.get((i - from) as usize).and_then(|x| x.as_str()).unwrap_or("").to_string();
                            if a != b {
                                let cls = if b == HANG {
                                    "debug-only-non-termination"
                                } else if b.contains("PANIC(") && !a.contains("PANIC(") {
                                    "debug-only-panic"
                                } else {
                                    "profile-dependent-result"
                                };
                                run.record_fail(
                                    &format!("c18.transcript.{}", d.name),
                                    i,
                                    Bad { class: cls.into(), msg: format!("driver {} case {}: release build observes {} , dbg build observes {}", d.name, i, mccore::truncate(&a, 300), mccore::truncate(&b, 300)) },
                                    || json!({"op": "c18.case", "driver": d.name, "index": i}),
                                );
                                break;
                            }
                        }
                    }
                    other => run.machinery_error(format!("records of chunk {} of {}: {:?}", c, d.name, other.err())),
                }
            }
        }
        let panics: u64 = mine.iter().map(|c| c.1).sum();
        summary.push(json!({"driver": d.name, "cases": d.n, "chunks": mine.len(), "differing_chunks": diffs, "records_with_a_panic_in_both_profiles": panics}));
        run.add_sample(json!({"driver": format!("c18.transcript.{}", d.name), "index": d.n / 2, "record(release)": mccore::truncate(&(d.f)(d.n / 2), 200)}));
    }
    // each case is executed in two configurations and its two records are compared
    run.add_counts(cases, cases * 2, cases);
    run.add_driver_summary(json!({"driver": "c18.transcript", "engine": "grid x 2 profiles", "cases": cases, "chunks_compared": chunks, "drivers": summary, "wall_s": t0.elapsed().as_secs_f64()}));
    eprintln!("[C18] transcript comparison         cases={:<10} chunks={:<8} {:.1}s", cases, chunks, t0.elapsed().as_secs_f64());
    true
}

pub fn run(run: &Run) {
    if !compare_transcripts(run) {
        // a worker thread is stuck in a library call that does not return: nothing more can be explored in this process
        return;
    }
    // (b) the oracle-carrying checks in the dbg build
    let ids: &[&str] = match run.tier {
        Tier::Quick => &["C06", "C07", "C13", "C12", "C14", "C04", "C05", "C10", "C15", "C09", "C11", "C16", "C01", "C03"],
        Tier::Thorough => &["C06", "C07", "C13", "C12", "C14", "C04", "C05", "C10", "C15", "C09", "C11", "C16", "C01", "C03", "C02", "C17", "C08"],
    };
    // children always run their quick tier except for the cheap field checks in the thorough tier
    for id in ids {
        let t0 = std::time::Instant::now();
        let deep = run.tier == Tier::Thorough && matches!(*id, "C06" | "C07" | "C13" | "C12" | "C14" | "C15" | "C10");
        if let Some(mut v) = crate::child_summary(run, id, if deep { Tier::Thorough } else { Tier::Quick }) {
            // A failure of the dbg run is a violation of THIS property only if the release build behaves
            // differently on the same case: re-execute the failing case here (release) and compare. A defect
            // that shows identically in both profiles is the other check's finding, not a profile dependence.
            if let Some(fails) = v["fails"].as_array().cloned() {
                let mut keep = vec![];
                for f in fails {
                    let case = f["case"].clone();
                    let here = crate::outcome_here(&case);
                    let there = format!("{}|{}", f["class"].as_str().unwrap_or(""), f["msg"].as_str().unwrap_or(""));
                    // profile-dependent iff the release build holds on this case, or the dbg build panics where the
                    // release build does not (a defect that violates in both builds, in whatever class, is not)
                    let dbg_panics = f["class"] == "panic";
                    let rel_panics = here.starts_with("panic|");
                    let _ = &there;
                    let _ = (dbg_panics, rel_panics);
                    // (a case that also violates in the release build, in whatever class, belongs to the other check;
                    // a debug-only check firing where release merely computes something else still shows up in the
                    // oracle-free transcript comparison above)
                    if here == "holds" {
                        let mut f = f.clone();
                        f["msg"] = json!(format!("{} ; the release build on the same case: {}", f["msg"].as_str().unwrap_or(""), mccore::truncate(&here, 200)));
                        keep.push(f);
                    }
                }
                v["fails"] = json!(keep);
            }
            run.merge_child("dbg", &v);
        }
        eprintln!("[C18] {} in the dbg build              {:.1}s", id, t0.elapsed().as_secs_f64());
    }
}
pub fn meta(run: &Run) -> Meta {
    Meta {
        rule: "two configurations (release; dbg = release + debug assertions + overflow checks) x the union of the quick alphabets: (a) \
               oracle-free transcript comparison - every case's observation record (result bytes / Err variant / None / panic text) must be \
               identical in both builds, compared by chunk digests with full-record re-run of a differing chunk; (b) the oracle-carrying \
               checks re-run in the dbg build: no panic, same model-conforming results. A case = one (input tuple) observed in both profiles."
            .into(),
        engine: "sm9mc-grid x 2 build profiles".into(),
        bounds: json!({"dbg_children": run.tier.pick("14 checks at their quick tier", "17 checks (field-level ones at their thorough tier)")}),
        assumptions: vec![
            "a panic that occurs identically in both profiles (documented unwrap on encoding the identity) is not a profile dependence".into(),
            "the repository's own dev profile uses opt-level 0; dbg keeps opt-level 3 and turns on exactly the debug-only checks".into(),
        ],
    }
}
pub fn replay(c: &Value) -> Result<(), Bad> {
    let driver = c["driver"].as_str().unwrap().to_string();
    let i = c["index"].as_u64().unwrap();
    let seed: u64 = std::env::var("VERIF_SEED").ok().and_then(|s| s.parse().ok()).unwrap_or(1);
    let d = Arc::new(drivers(seed).into_iter().find(|d| d.name == driver).expect("driver"));
    let a = record_with_timeout(&d, i);
    let b = child_record(&driver, i, seed).map_err(|e| panic!("dbg child: {}", e)).unwrap();
    if a != b {
        return Err(Bad { class: "profile-dependent-result".into(), msg: format!("driver {} case {}: release {} , dbg {}", driver, i, mccore::truncate(&a, 300), mccore::truncate(&b, 300)) });
    }
    Ok(())
}

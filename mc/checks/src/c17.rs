//! C17 — the F_q^12 tower engine and final exponentiation on arbitrary elements (through the
//! cfg(john_yu_sm9_core_verif) hook module), plus the direct half of C12's squaring agreement.

use crate::api::{fq, fq2, fq2v, lib, ref_mul};
use mccore::alpha::{generic, rinv, two};
use mccore::{ensure, gn, gs, jn, Bad, Meta, Run, Spec, Tally, Tier};
use num_traits::{One, Zero};
use refmodel::{consts, mulm, n, negm, q, r, F12, F2, Fld, N};
use serde_json::{json, Value};
use sm9_core::verif_hooks as h;
use sm9_core::verif_hooks::{FieldElement, Fq12, Fq4};
use sm9_core::{Fq2, G2Prepared, G1, G2};

fn ifq2(a: &N, b: &N) -> h::InnerFq2 {
    h::fq2_in(Fq2::new(fq(a), fq(b)))
}
/// flat coefficients of w^0..w^11 -> tower element: coefficient of w^(i+3j+6k) is c_i . d_j . e_k
pub fn to_fq12(f: &F12) -> Fq12 {
    let c = |i: usize| Fq4::new(ifq2(&f.0[i], &f.0[i + 6]), ifq2(&f.0[i + 3], &f.0[i + 9]));
    Fq12::new(c(0), c(1), c(2))
}
pub fn from_fq12(x: &Fq12) -> Result<F12, Bad> {
    F12::from_bytes(&x.to_slice()).ok_or(Bad { class: "limb>=q".into(), msg: "an Fq12 element serialises with a 32-byte limb >= q".into() })
}
/// Fq4 elements are written as their embedding in F12 (v = w^3): coefficients at w^0, w^3, w^6, w^9
pub fn to_fq4(f: &F12) -> Fq4 {
    Fq4::new(ifq2(&f.0[0], &f.0[6]), ifq2(&f.0[3], &f.0[9]))
}
pub fn from_fq4(x: &Fq4) -> Result<F12, Bad> {
    // read through the Fq12 serialisation (whose byte order is pinned by the public Gt::to_slice), not through
    // Fq4::to_slice, whose layout is an internal detail: x sits in the c0 block of (x, 0, 0)
    use sm9_core::Zero;
    let f = from_fq12(&Fq12::new(*x, Fq4::zero(), Fq4::zero()))?;
    if !is_fq4(&f) {
        return mccore::bad("wrong-value", format!("Fq12::new(x, 0, 0) does not serialise as an element of F_q4: {}", jf(&f)));
    }
    Ok(f)
}
fn is_fq4(f: &F12) -> bool {
    (0..12).all(|i| i % 3 == 0 || f.0[i].is_zero())
}
fn jf(f: &F12) -> Value {
    json!(f.0.iter().map(|c| format!("{:x}", c)).collect::<Vec<_>>())
}
fn gf(v: &Value) -> F12 {
    let c: Vec<N> = v.as_array().expect("12 coefficients").iter().map(|x| refmodel::nhex(x.as_str().unwrap())).collect();
    F12::from_coeffs(&c)
}
fn chk12(what: &str, got: &Fq12, want: &F12, ctx: &dyn Fn() -> String) -> Result<(), Bad> {
    let g = from_fq12(got)?;
    ensure!(&g == want, "wrong-value", "Fq12 {}: library {} , F_q[w]/(w^12+2) {} ; {}", what, jf(&g), jf(want), ctx());
    // the serialisation reduces; the value itself must also BE that element: equal (library ==) to a freshly built
    // element with the same coefficients, and zero exactly when the model value is zero
    {
        use sm9_core::Zero;
        ensure!(*got == to_fq12(want), "non-canonical", "Fq12 {}: the result serialises as the right value {} but is != a freshly built element with these coefficients (unreduced representation) ; {}", what, jf(want), ctx());
        ensure!(got.is_zero() == want.is_zero(), "non-canonical", "Fq12 {}: is_zero() = {} for the value {} ; {}", what, got.is_zero(), jf(want), ctx());
    }
    Ok(())
}
fn chk4(what: &str, got: &Fq4, want: &F12, ctx: &dyn Fn() -> String) -> Result<(), Bad> {
    let g = from_fq4(got)?;
    ensure!(is_fq4(want), "oracle", "reference result of Fq4 {} is not in F_q4: {} ; {}", what, jf(want), ctx());
    ensure!(&g == want, "wrong-value", "Fq4 {}: library {} , reference {} ; {}", what, jf(&g), jf(want), ctx());
    {
        use sm9_core::Zero;
        ensure!(*got == to_fq4(want), "non-canonical", "Fq4 {}: the result serialises as the right value {} but is != a freshly built element with these coefficients (unreduced representation) ; {}", what, jf(want), ctx());
        ensure!(got.is_zero() == want.is_zero(), "non-canonical", "Fq4 {}: is_zero() = {} for the value {} ; {}", what, got.is_zero(), jf(want), ctx());
    }
    Ok(())
}

// ---------------------------------------------------------------------------------------------
// alphabets
// ---------------------------------------------------------------------------------------------
fn extreme_values() -> Vec<N> {
    let p = q();
    let ri = rinv(p);
    vec![
        p - n(1),
        negm(&ri, p),                                   // stored limbs p-1
        mulm(&(two(256) - n(1) - p), &ri, p),           // stored limbs 2^256-1-p
        mulm(&mccore::alpha::from_limbs(&[u64::MAX, u64::MAX, u64::MAX, mccore::alpha::limbs_of(p)[3] - 1]), &ri, p),
    ]
}
pub fn fq12_alpha(tier: Tier, seed: u64) -> Vec<F12> {
    let p = q();
    let mut v: Vec<F12> = vec![F12::zero(), F12::one()];
    let gens = generic(p, seed, 0xf12, tier.pick(64, 2048));
    let mut gi = 0;
    let mut g = || {
        gi += 1;
        gens[gi % gens.len()].clone()
    };
    let gen12 = |g: &mut dyn FnMut() -> N| F12::from_coeffs(&(0..12).map(|_| g()).collect::<Vec<_>>());
    for k in 0..12 {
        v.push(F12::monomial(k, &N::one()));
        v.push(F12::monomial(k, &(p - n(1))));
        v.push(F12::monomial(k, &g()));
    }
    // subfields: Fq, Fq2 (w^6), Fq4 (w^3), Fq6 (w^2)
    for step in [12usize, 6, 3, 2] {
        let mut f = F12::zero();
        let mut i = 0;
        while i < 12 {
            f.0[i] = g();
            i += step;
        }
        v.push(f);
    }
    for e in extreme_values() {
        v.push(F12::from_coeffs(&vec![e; 12]));
    }
    let x = gen12(&mut g);
    let unitary = x.frobenius(6).mul(&x.inv().unwrap());
    let cyclo = unitary.frobenius(2).mul(&unitary);
    v.push(unitary);
    v.push(cyclo);
    let c = consts();
    v.push(refmodel::pairing(&c.g1, &c.g2));
    v.push(refmodel::miller(&c.g1, &c.g2));
    for _ in 0..tier.pick(4, 48) {
        v.push(gen12(&mut g));
    }
    {
        // sparse shapes: every pair of monomials (extreme coefficients), and the same shape with two EQUAL generic
        // coefficients (thorough) - zero coefficients and coinciding coefficients are where shortcuts hide
        let ex = extreme_values();
        for i in 0..12 {
            for j in (i + 1)..12 {
                let mut f = F12::zero();
                f.0[i] = ex[(i + j) % ex.len()].clone();
                f.0[j] = ex[(i * j + 1) % ex.len()].clone();
                v.push(f);
                if tier == Tier::Thorough || (i + j) % 3 == 0 {
                    let mut f = F12::zero();
                    let c = g();
                    f.0[i] = c.clone();
                    f.0[j] = c;
                    v.push(f);
                }
            }
        }
        // a single non-zero Fq4 block at w^0, w^1, w^2 (coefficients at i, i+3, i+6, i+9): these put every internal
        // Fq4-level Frobenius / sparse-multiplication helper in its context
        for i in 0..3 {
            for variant in 0..3 {
                let mut f = F12::zero();
                for j in 0..4 {
                    f.0[i + 3 * j] = match variant {
                        0 => g(),
                        1 => ex[(i + j) % ex.len()].clone(),
                        _ => if j == 0 { N::zero() } else { g() },
                    };
                }
                v.push(f);
            }
        }
        // dense elements with one zero coefficient, and with all coefficients equal to one generic value
        for i in 0..12 {
            let mut f = gen12(&mut g);
            f.0[i] = N::zero();
            v.push(f);
        }
        let c = g();
        v.push(F12::from_coeffs(&vec![c; 12]));
        // near-identity shapes: 1 + c w^j and -1 + c w^j for every j, and 1 plus one full generic Fq4 block: an
        // is_one / is_zero style test that inspects only part of the coefficients takes these for the identity
        for j in 1..12 {
            for (base, c) in [(N::one(), N::one()), (N::one(), g()), (p - n(1), g())] {
                let mut f = F12::zero();
                f.0[0] = base;
                f.0[j] = c;
                v.push(f);
            }
        }
        for i in 1..3 {
            let mut f = F12::one();
            for j in 0..4 {
                f.0[i + 3 * j] = g();
            }
            v.push(f);
        }
    }
    let mut seen = std::collections::HashSet::new();
    v.retain(|f| seen.insert(f.clone()));
    v
}
pub fn fq4_alpha(tier: Tier, seed: u64) -> Vec<F12> {
    let p = q();
    let mut v = vec![F12::zero(), F12::one()];
    let gens = generic(p, seed, 0xf4, tier.pick(64, 1024));
    let mut gi = 0;
    let mut g = || {
        gi += 1;
        gens[gi % gens.len()].clone()
    };
    for k in 0..4 {
        v.push(F12::monomial(3 * k, &N::one()));
        v.push(F12::monomial(3 * k, &(p - n(1))));
        v.push(F12::monomial(3 * k, &g()));
    }
    let mut ex = extreme_values();
    ex.push(n(2));
    for e in &ex {
        let mut f = F12::zero();
        for k in 0..4 {
            f.0[3 * k] = e.clone();
        }
        v.push(f);
    }
    // c0 == 0 shapes (precondition of mul_1) with extreme and generic coefficients
    for e in ex.iter().chain([g(), g()].iter()) {
        let mut f = F12::zero();
        f.0[3] = e.clone();
        f.0[9] = e.clone();
        v.push(f);
    }
    // mixed extremes: products of these accumulate the most lazy-reduction carries
    for a in 0..ex.len() {
        for b in 0..ex.len() {
            let mut f = F12::zero();
            f.0[0] = ex[a].clone();
            f.0[3] = ex[b].clone();
            f.0[6] = ex[(a + b) % ex.len()].clone();
            f.0[9] = ex[(a * b + 1) % ex.len()].clone();
            v.push(f);
        }
    }
    for _ in 0..tier.pick(6, 80) {
        let mut f = F12::zero();
        for k in 0..4 {
            f.0[3 * k] = g();
        }
        v.push(f);
    }
    // Fq4-unitary elements conj(y)/y (norm to Fq2 equal to 1, in particular inside Fq) and elements whose norm
    // to Fq2 lies in Fq: a = c0 + c1 v with c0^2 - u c1^2 real
    {
        let conj4 = |f: &F12| {
            let mut c = f.clone();
            c.0[3] = negm(&f.0[3], p);
            c.0[9] = negm(&f.0[9], p);
            c
        };
        for _ in 0..3 {
            let mut y = F12::zero();
            for k in 0..4 {
                y.0[3 * k] = g();
            }
            if let Some(yi) = y.inv() {
                v.push(conj4(&y).mul(&yi));
            }
        }
        // (1+u) + (2+u) v : norm 7 (the smallest non-trivial element with a real norm)
        let mut f = F12::zero();
        f.0[0] = n(1);
        f.0[6] = n(1);
        f.0[3] = n(2);
        f.0[9] = n(1);
        v.push(f);
    }
    // near-identity shapes 1 + c w^(3k), -1 + c w^(3k)
    for k in 1..4 {
        for (base, c) in [(N::one(), N::one()), (N::one(), g()), (p - n(1), g())] {
            let mut f = F12::zero();
            f.0[0] = base;
            f.0[3 * k] = c;
            v.push(f);
        }
    }
    // all four coefficients with STORED value q-1-i: the four-term accumulator reaches its top band
    let ri = rinv(p);
    for j in 0..tier.pick(10u64, 24) {
        let mut f = F12::zero();
        for k in 0..4u64 {
            f.0[3 * k as usize] = mulm(&(p - n(1) - n((j * 5 + k * 3) % 23)), &ri, p);
        }
        v.push(f);
    }
    let mut seen = std::collections::HashSet::new();
    v.retain(|f| seen.insert(f.clone()));
    v
}

// ---------------------------------------------------------------------------------------------
// Fq4
// ---------------------------------------------------------------------------------------------
pub fn fq4_pair(a: &F12, b: &F12) -> Result<u32, Bad> {
    let ctx = || format!("a={} b={}", jf(a), jf(b));
    let (la, lb) = (to_fq4(a), to_fq4(b));
    let want = a.mul(b);
    chk4("a*b", &lib("Fq4 mul", || la * lb)?, &want, &ctx)?;
    chk4("b*a", &lib("Fq4 mul", || lb * la)?, &want, &ctx)?;
    chk4("a+b", &lib("Fq4 add", || la + lb)?, &a.add(b), &ctx)?;
    chk4("a-b", &lib("Fq4 sub", || la - lb)?, &a.sub(b), &ctx)?;
    let mut k = 4;
    if b.0[0].is_zero() && b.0[6].is_zero() {
        // sparse multiplication, precondition b.c0 == 0
        chk4("mul_1", &lib("Fq4 mul_1", || la.mul_1(&lb))?, &want, &ctx)?;
        k += 1;
    }
    Ok(k)
}
pub fn fq4_unary(a: &F12) -> Result<u32, Bad> {
    let ctx = || format!("a={}", jf(a));
    let la = to_fq4(a);
    chk4("round trip", &la, a, &ctx)?;
    chk4("squared", &lib("Fq4 squared", || la.squared())?, &a.sq(), &ctx)?;
    chk4("-a", &lib("Fq4 neg", || -la)?, &a.neg(), &ctx)?;
    chk4("double", &lib("Fq4 double", || la.double())?, &a.add(a), &ctx)?;
    chk4("triple", &lib("Fq4 triple", || la.triple())?, &a.add(a).add(a), &ctx)?;
    match (lib("Fq4 inverse", || la.inverse())?, a.inv()) {
        (None, None) => {}
        (Some(g), Some(w)) => chk4("inverse", &g, &w, &ctx)?,
        (g, _) => return mccore::bad("inverse-none", format!("Fq4 inverse is_some={} ; {}", g.is_some(), ctx())),
    }
    // multiplication by the non-residue v (v^2 = u): a*v = a * w^3
    chk4("mul_by_nonresidue", &lib("Fq4 mul_by_nonresidue", || la.mul_by_nonresidue())?, &a.mul_wk(3), &ctx)?;
    chk4("unitary_inverse", &lib("Fq4 unitary_inverse", || la.unitary_inverse())?, &{
        let mut c = a.clone();
        c.0[3] = negm(&a.0[3], q());
        c.0[9] = negm(&a.0[9], q());
        c
    }, &ctx)?;
    let mut k = 8;
    // The Fq4-level Frobenius helper (`frobenius_map(10k+i)`: the q^k-Frobenius of a coefficient sitting at w^i of an
    // Fq12 element) is an internal numbering; it is exercised IN CONTEXT through Fq12::frobenius_map on elements
    // with a single non-zero Fq4 block (see fq12_alpha), which is what the property is about.
    // scale by an Fq2 element and by an Fq element (taken from a's own coefficients)
    let s2 = F2 { a: a.0[3].clone(), b: a.0[0].clone() };
    chk4("scale", &lib("Fq4 scale", || la.scale(&h::fq2_in(fq2(&s2))))?, &a.mul(&F12::from_f2(&s2)), &ctx)?;
    let s1 = a.0[9].clone();
    chk4("scale_fq", &lib("Fq4 scale_fq", || la.scale_fq(&h::fq_in(fq(&s1))))?, &a.mul(&F12::from_fq(&s1)), &ctx)?;
    Ok(k + 2)
}
const U4: [&str; 6] = [
    "four-term-sum:u4=0", "four-term-sum:u4=1", "four-term-sum:u4=2",
    "four-term-sum:u4>=1,low<q-after-folding", "four-term-sum:u4>=1,extra-subtraction", "four-term-sum:u4=0,low>=q",
];
fn u4_class4(a: &F12, b: &F12) -> u32 {
    // c0.c0 = a00 b00 - 2 a01 b01 - 2 a10 b11 - 2 a11 b10 on the stored (Montgomery) values
    let p = q();
    let rm = mccore::alpha::rmont(p);
    let t256 = two(256);
    let pinv = p.modpow(&(two(255) - n(1)), &t256);
    let pinv_neg = &t256 - &pinv;
    let raw = |v: &N| mulm(v, &rm, p);
    let m2 = |v: &N| raw(&negm(&((n(2) * v) % p), p));
    // tower coordinates: a00 = w^0, a01 = w^6, a10 = w^3, a11 = w^9
    let sums = [
        raw(&a.0[0]) * raw(&b.0[0]) + m2(&a.0[6]) * raw(&b.0[6]) + m2(&a.0[3]) * raw(&b.0[9]) + m2(&a.0[9]) * raw(&b.0[3]),
        raw(&a.0[0]) * raw(&b.0[9]) + raw(&a.0[6]) * raw(&b.0[3]) + raw(&a.0[3]) * raw(&b.0[6]) + raw(&a.0[9]) * raw(&b.0[0]),
    ];
    let mut c = 0;
    for s in sums {
        let m = (&s * &pinv_neg) % &t256;
        let u: N = (&s + &m * p) >> 256;
        let u4: N = &u >> 256;
        let low: N = &u % &t256;
        let k = if u4.is_zero() { 0 } else if u4.is_one() { 1 } else { 2 };
        c |= 1 << k;
        if k == 0 {
            if &low >= p {
                c |= 1 << 5;
            }
        } else {
            // each add_carry brings the value into [2^256-q, 2^256); the last one decides whether the final
            // conditional subtraction fires
            let fin = (&u % p + p) % p; // canonical result
            let _ = fin;
            let after = {
                let mut v = low.clone();
                for _ in 0..k {
                    // v + 2^256 - j q with the smallest j giving a value < 2^256
                    let mut t = &v + &t256;
                    while t >= t256 {
                        t -= p;
                    }
                    v = t;
                }
                v
            };
            if &after >= p { c |= 1 << 4 } else { c |= 1 << 3 }
        }
    }
    c
}

// ---------------------------------------------------------------------------------------------
// Fq12
// ---------------------------------------------------------------------------------------------
pub fn fq12_pair(a: &F12, b: &F12) -> Result<u32, Bad> {
    let ctx = || format!("a={} b={}", jf(a), jf(b));
    let (la, lb) = (to_fq12(a), to_fq12(b));
    let want = a.mul(b);
    chk12("a*b", &lib("Fq12 mul", || la * lb)?, &want, &ctx)?;
    chk12("b*a", &lib("Fq12 mul", || lb * la)?, &want, &ctx)?;
    chk12("a+b", &lib("Fq12 add", || la + lb)?, &a.add(b), &ctx)?;
    chk12("a-b", &lib("Fq12 sub", || la - lb)?, &a.sub(b), &ctx)?;
    Ok(4)
}
/// sparse multiplication with b restricted to its precondition: b.c1 == 0, b.c2 == (0, *)
pub fn fq12_sparse(a: &F12, b: &F12) -> Result<u32, Bad> {
    // b.c0 = coefficients at w^0, w^3, w^6, w^9 ; b.c2.c1 = coefficients at w^5 (e0) and w^11 (e1)
    let mut bs = F12::zero();
    for i in [0usize, 3, 6, 9, 5, 11] {
        bs.0[i] = b.0[i].clone();
    }
    let ctx = || format!("a={} sparse b={}", jf(a), jf(&bs));
    let (la, lb) = (to_fq12(a), to_fq12(&bs));
    chk12("mul_015", &lib("Fq12 mul_015", || la.mul_015(&lb))?, &a.mul(&bs), &ctx)?;
    Ok(1)
}
pub const POW_EXPS: [u128; 14] = [0, 1, 2, 3, 4, 5, 8, 9, 1 << 64, h::S, h::A2, h::A3, h::NINE, (1 << 127) + 1];
pub fn fq12_unary(a: &F12, heavy: bool) -> Result<u32, Bad> {
    let ctx = || format!("a={}", jf(a));
    let la = to_fq12(a);
    chk12("round trip", &la, a, &ctx)?;
    chk12("squared", &lib("Fq12 squared", || la.squared())?, &a.sq(), &ctx)?;
    chk12("-a", &lib("Fq12 neg", || -la)?, &a.neg(), &ctx)?;
    match (lib("Fq12 inverse", || la.inverse())?, a.inv()) {
        (None, None) => {}
        (Some(g), Some(w)) => chk12("inverse", &g, &w, &ctx)?,
        (g, _) => return mccore::bad("inverse-none", format!("Fq12 inverse is_some={} ; {}", g.is_some(), ctx())),
    }
    chk12("mul_by_nonresidue", &lib("Fq12 mul_by_nonresidue", || la.mul_by_nonresidue())?, &a.mul_wk(1), &ctx)?;
    let mut k = 5;
    for fk in [1usize, 2, 3, 6] {
        chk12(&format!("frobenius_map({})", fk), &lib("Fq12 frobenius_map", || la.frobenius_map(fk))?, &a.frobenius(fk as u32), &ctx)?;
        k += 1;
    }
    for e in POW_EXPS {
        let want = a.pow(&N::from(e));
        chk12(&format!("pow({:#x})", e), &lib("Fq12 pow", || h::fq12_pow(&la, e))?, &want, &ctx)?;
        k += 1;
    }
    if heavy {
        // both final exponentiations: x -> x^((q^12-1)/r) on every non-zero element, None on zero
        let want = if a.is_zero() { None } else { Some(a.final_exp()) };
        for (nm, got) in [
            ("final_exponentiation", lib("final_exponentiation", || la.final_exponentiation())?),
            ("final_exp", lib("final_exp", || la.final_exp())?),
        ] {
            match (&got, &want) {
                (None, None) => {}
                (Some(g), Some(w)) => chk12(nm, g, w, &ctx)?,
                _ => return mccore::bad("final-exp-none", format!("{} is_some={} ; {}", nm, got.is_some(), ctx())),
            }
            k += 1;
        }
    }
    Ok(k)
}
pub fn fq12_smallpow(a: &F12, e: u64) -> Result<u32, Bad> {
    let ctx = || format!("a={} e={}", jf(a), e);
    let la = to_fq12(a);
    chk12("pow", &lib("Fq12 pow", || h::fq12_pow(&la, e as u128))?, &a.pow(&n(e)), &ctx)?;
    Ok(1)
}
/// both Miller loops followed by both final exponentiations = the reference pairing
pub fn miller_case(a: &N, b: &N) -> Result<u32, Bad> {
    let (pa, qb) = (ref_mul::<G1>(a), ref_mul::<G2>(b));
    let want = refmodel::pairing(&pa, &qb);
    let ctx = || format!("P = {:x}*P1, Q = {:x}*P2", a, b);
    // affine inputs built from the reference coordinates: no group operation of the library is involved
    let (px, py) = pa.xy().expect("non-identity");
    let (qx, qy) = qb.xy().expect("non-identity");
    let p = <G1 as crate::api::GroupApi>::new_jac(px, py, &refmodel::Fq(N::one()));
    let qq = <G2 as crate::api::GroupApi>::new_jac(qx, qy, &F2 { a: N::one(), b: N::zero() });
    let (ip, iq) = (h::g1_in(p), h::g2_in(qq));
    let m1 = lib("G2::miller_loop", || h::g2_miller_loop(&iq, &ip))?;
    let prep = lib("G2Prepared::from", || G2Prepared::from(qq))?;
    let m2 = lib("G2Prepared::miller_loop", || h::prepared_miller_loop(&prep, &ip))?;
    let mut k = 0;
    for (mn, m) in [("G2::miller_loop", &m1), ("G2Prepared::miller_loop", &m2)] {
        for fe in ["final_exponentiation", "final_exp"] {
            let got = lib(fe, || if fe == "final_exp" { m.final_exp() } else { m.final_exponentiation() })?;
            match got {
                Some(g) => chk12(&format!("{} then {}", mn, fe), &g, &want, &ctx)?,
                None => return mccore::bad("final-exp-none", format!("{} of {} output is None ; {}", fe, mn, ctx())),
            }
            k += 1;
        }
    }
    // the two Miller values agree up to a factor the final exponentiation removes: the quotient maps to 1
    let quo = from_fq12(&m1)?.mul(&from_fq12(&m2)?.inv().unwrap());
    ensure!(quo.final_exp() == F12::one(), "miller-quotient", "the two Miller loops differ by more than a factor killed by the final exponentiation ; {}", ctx());
    // and the reference Miller function differs from the library's only by such a factor as well
    let quo2 = from_fq12(&m1)?.mul(&refmodel::miller(&pa, &qb).inv().unwrap());
    ensure!(quo2.final_exp() == F12::one(), "miller-quotient", "G2::miller_loop differs from the textbook Miller function by more than a subfield factor ; {}", ctx());
    Ok(k + 2)
}

/// the base of the tower: internal Fq helpers that the public API does not expose (double, triple, squared,
/// div2) on every member of FP(q), including every special value as a STORED (Montgomery) value
pub fn fq_internal_case(a: &N) -> Result<u32, Bad> {
    let p = q();
    let ia = h::fq_in(fq(a));
    let out = |x: h::InnerFq| crate::api::fqv(&h::fq_out(x));
    let two_inv = refmodel::invm(&n(2), p).unwrap();
    for (nm, got, want) in [
        ("double", lib("Fq double", || out(ia.double()))?, (a + a) % p),
        ("triple", lib("Fq triple", || out(ia.triple()))?, (a * n(3)) % p),
        ("squared", lib("Fq squared", || out(ia.squared()))?, (a * a) % p),
        ("div2", lib("Fq div2", || out(ia.div2()))?, mulm(a, &two_inv, p)),
    ] {
        ensure!(got == want, "wrong-value", "internal Fq {}({:x}) = {:x}, expected {:x}", nm, a, got, want);
    }
    // results must be fully reduced as stored values: they compare equal to freshly built elements
    for (nm, x, want) in [("double", ia.double(), (a + a) % p), ("triple", ia.triple(), (a * n(3)) % p), ("div2", ia.div2(), mulm(a, &two_inv, p))] {
        ensure!(h::fq_out(x) == fq(&want), "non-canonical", "internal Fq {}({:x}) is not fully reduced (it encodes the right value but != a fresh element)", nm, a);
    }
    Ok(7)
}
pub fn run(run: &Run) {
    let fpa = mccore::alpha::fp_alpha(q(), run.tier, run.seed).all;
    run.grid(
        Spec { name: "c17.fq.internal-helpers", n: fpa.len() as u64, classes: &[], required: &[] },
        |i| Ok(Tally::new(fq_internal_case(&fpa[i as usize])?, fpa[i as usize] > n(1), 0)),
        |i| json!({"op": "c17.fq.internal", "a": jn(&fpa[i as usize])}),
    );
    let a4 = fq4_alpha(run.tier, run.seed);
    let n4 = a4.len() as u64;
    run.note("alphabet", json!({"FQ4": n4}));
    run.grid(
        Spec { name: "c17.fq4.pair", n: n4 * n4, classes: &U4, required: &U4 },
        |i| {
            let (a, b) = (&a4[(i / n4) as usize], &a4[(i % n4) as usize]);
            Ok(Tally::new(fq4_pair(a, b)?, !(a.is_zero() || b.is_zero()), u4_class4(a, b)))
        },
        |i| json!({"op": "c17.fq4.pair", "a": jf(&a4[(i / n4) as usize]), "b": jf(&a4[(i % n4) as usize])}),
    );
    run.grid(
        Spec { name: "c17.fq4.unary", n: n4, classes: &[], required: &[] },
        |i| Ok(Tally::new(fq4_unary(&a4[i as usize])?, !a4[i as usize].is_zero(), 0)),
        |i| json!({"op": "c17.fq4.unary", "a": jf(&a4[i as usize])}),
    );
    let a12 = fq12_alpha(run.tier, run.seed);
    let n12 = a12.len() as u64;
    run.note("alphabet_FQ12", json!(n12));
    run.grid(
        Spec { name: "c17.fq12.pair", n: n12 * n12, classes: &[], required: &[] },
        |i| {
            let (a, b) = (&a12[(i / n12) as usize], &a12[(i % n12) as usize]);
            let mut k = fq12_pair(a, b)?;
            k += fq12_sparse(a, b)?;
            Ok(Tally::new(k, !(a.is_zero() || b.is_zero()), 0))
        },
        |i| json!({"op": "c17.fq12.pair", "a": jf(&a12[(i / n12) as usize]), "b": jf(&a12[(i % n12) as usize])}),
    );
    run.grid(
        Spec { name: "c17.fq12.unary", n: n12, classes: &[], required: &[] },
        |i| Ok(Tally::new(fq12_unary(&a12[i as usize], true)?, !a12[i as usize].is_zero(), 0)),
        |i| json!({"op": "c17.fq12.unary", "a": jf(&a12[i as usize])}),
    );
    if run.tier == Tier::Thorough {
        // EVERY sparsity pattern: all 4096 elements with coefficients in {0, 1} (shape i = bit mask of the non-zero
        // coefficients), every unary operation including both final exponentiations, and both orders of the
        // products with three fixed dense / near-identity partners
        let shape = |i: u64| F12::from_coeffs(&(0..12).map(|j| if (i >> j) & 1 == 1 { N::one() } else { N::zero() }).collect::<Vec<_>>());
        run.grid(
            Spec { name: "c17.fq12.every-01-shape.unary", n: 4096, classes: &[], required: &[] },
            |i| Ok(Tally::new(fq12_unary(&shape(i), true)?, i > 0, 0)),
            |i| json!({"op": "c17.fq12.unary", "a": jf(&shape(i))}),
        );
        let partners: Vec<F12> = vec![a12[a12.len() - 1].clone(), refmodel::miller(&consts().g1, &consts().g2), {
            let mut f = F12::one();
            f.0[2] = n(3);
            f
        }];
        run.grid(
            Spec { name: "c17.fq12.every-01-shape.pair", n: 4096 * 3, classes: &[], required: &[] },
            |i| {
                let (a, b) = (shape(i / 3), &partners[(i % 3) as usize]);
                let mut k = fq12_pair(&a, b)?;
                k += fq12_sparse(&a, b)?;
                k += fq12_pair(b, &a)?;
                k += fq12_sparse(b, &a)?;
                Ok(Tally::new(k, i >= 3, 0))
            },
            |i| json!({"op": "c17.fq12.pair2", "a": jf(&shape(i / 3)), "b": jf(&partners[(i % 3) as usize])}),
        );
    }
    let emax: u64 = run.tier.pick(256, 16384);
    let four: Vec<F12> = vec![a12[a12.len() - 1].clone(), a12[a12.len() - 2].clone(), F12::monomial(1, &N::one()), F12::from_coeffs(&vec![q() - n(1); 12])];
    run.grid(
        Spec { name: "c17.fq12.pow-every-small-exponent", n: 4 * emax, classes: &[], required: &[] },
        |i| Ok(Tally::new(fq12_smallpow(&four[(i / emax) as usize], i % emax)?, i % emax > 1, 0)),
        |i| json!({"op": "c17.fq12.smallpow", "a": jf(&four[(i / emax) as usize]), "e": i % emax}),
    );
    let ks: Vec<N> = match run.tier {
        Tier::Quick => vec![n(1), n(2), r() - n(1), consts().lambda.clone()],
        Tier::Thorough => mccore::alpha::scalars(Tier::Quick, run.seed).into_iter().filter(|k| !k.is_zero()).collect(),
    };
    let nk = ks.len() as u64;
    run.grid(
        Spec { name: "c17.miller-loops-x-final-exponentiations", n: nk * nk, classes: &[], required: &[] },
        |i| Ok(Tally::new(miller_case(&ks[(i / nk) as usize], &ks[(i % nk) as usize])?, true, 0)),
        |i| json!({"op": "c17.miller", "a": jn(&ks[(i / nk) as usize]), "b": jn(&ks[(i % nk) as usize])}),
    );
}
pub fn meta(run: &Run) -> Meta {
    Meta {
        rule: "grid (through the cfg-guarded hook module): every ordered pair over FQ4 for mul, add, sub and the sparse mul_1 (second operand \
               within its precondition), every unary Fq4 operation including all eight Frobenius codes specified in context \
               ((F w^i)^(q^k) = R w^i); every ordered pair over FQ12 (unit monomials x {1, q-1, generic}, subfield elements, all-extreme \
               coefficients, unitary, cyclotomic, pairing value, Miller output, generic; thorough: all two-monomial shapes) for mul, add, sub and \
               the sparse mul_015; squared, inverse, Frobenius 1/2/3/6, pow(e) for every exponent of the addition chains plus the paths they \
               never take, both final exponentiations (= x^((q^12-1)/r) by generic exponentiation, None on zero) on every element; EVERY \
               exponent below the bound on four elements; thorough: every one of the 4096 sparsity patterns (coefficients in {0,1}); both Miller loops x both final exponentiations = the reference pairing. \
               Oracle: flat polynomial arithmetic in F_q[w]/(w^12+2)."
            .into(),
        engine: "sm9mc-grid".into(),
        bounds: json!({"every_exponent_below": run.tier.pick(256, 16384), "every_01_shape": run.tier == Tier::Thorough}),
        assumptions: vec![
            "sparse multiplications are only exercised within their stated preconditions; unsupported Frobenius powers (unimplemented!) are not called".into(),
            "needs the add-only hook module behind --cfg john_yu_sm9_core_verif".into(),
        ],
    }
}

// ---------------------------------------------------------------------------------------------
// direct half of C12's squaring agreement: internal squared(x) == x*x == reference
// ---------------------------------------------------------------------------------------------
pub fn c12_direct_case(x: &F2) -> Result<u32, Bad> {
    let ix = h::fq2_in(fq2(x));
    let sq = lib("Fq2 squared", || ix.squared())?;
    let mu = lib("Fq2 mul", || ix * ix)?;
    ensure!(sq == mu, "squaring", "internal Fq2 squared(x) != x*x for x={:x?}", x);
    ensure!(fq2v(&h::fq2_out(sq)) == x.sq(), "squaring", "internal Fq2 squared(x) differs from the reference for x={:x?}", x);
    let iv = lib("Fq2 inverse", || ix.inverse())?;
    match (iv, x.inv()) {
        (None, None) => {}
        (Some(g), Some(w)) => ensure!(fq2v(&h::fq2_out(g)) == w, "inverse", "internal Fq2 inverse differs from the reference for x={:x?}", x),
        (g, _) => return mccore::bad("inverse", format!("internal Fq2 inverse is_some={} for x={:x?}", g.is_some(), x)),
    }
    Ok(3)
}
pub fn c12_direct_squaring(run: &Run, al: &[F2], _lv: &[Fq2]) {
    run.grid(
        Spec { name: "c12.squared-direct(hook)", n: al.len() as u64, classes: &[], required: &[] },
        |i| Ok(Tally::new(c12_direct_case(&al[i as usize])?, !al[i as usize].is_zero(), 0)),
        |i| json!({"op": "c12.squared-direct", "x": {"re": jn(&al[i as usize].a), "im": jn(&al[i as usize].b)}}),
    );
}
pub fn c12_direct_replay(c: &Value) -> Result<(), Bad> {
    c12_direct_case(&crate::api::gf2(&c["x"])).map(|_| ())
}

pub fn replay(c: &Value) -> Result<(), Bad> {
    match gs(c, "op").as_str() {
        "c17.fq.internal" => fq_internal_case(&(gn(c, "a") % q())).map(|_| ()),
        "c17.fq4.pair" => fq4_pair(&gf(&c["a"]), &gf(&c["b"])).map(|_| ()),
        "c17.fq4.unary" => fq4_unary(&gf(&c["a"])).map(|_| ()),
        "c17.fq12.pair" => {
            let (a, b) = (gf(&c["a"]), gf(&c["b"]));
            fq12_pair(&a, &b)?;
            fq12_sparse(&a, &b).map(|_| ())
        }
        "c17.fq12.pair2" => {
            let (a, b) = (gf(&c["a"]), gf(&c["b"]));
            fq12_pair(&a, &b)?;
            fq12_sparse(&a, &b)?;
            fq12_pair(&b, &a)?;
            fq12_sparse(&b, &a).map(|_| ())
        }
        "c17.fq12.unary" => fq12_unary(&gf(&c["a"]), true).map(|_| ()),
        "c17.fq12.smallpow" => fq12_smallpow(&gf(&c["a"]), c["e"].as_u64().unwrap()).map(|_| ()),
        "c17.miller" => miller_case(&gn(c, "a"), &gn(c, "b")).map(|_| ()),
        o => panic!("unknown op {}", o),
    }
}

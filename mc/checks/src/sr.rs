//! Engine cross-check: the C16 register machine explored a second time by stateright's BFS checker;
//! the unique-state counts of the two explorers must agree (guards the hand-rolled frontier /
//! de-duplication), and stateright's `always` property re-evaluates the same invariant.

use crate::api::GroupApi;
use crate::c16::{init, invariant, key, menu, step, Op, St};
use stateright::{Checker, Model, Property};
use std::hash::{Hash, Hasher};

#[derive(Clone)]
pub struct SrState<G: GroupApi> {
    key: Vec<u8>,
    depth: usize,
    st: St<G>,
}
impl<G: GroupApi> std::fmt::Debug for SrState<G> {
    fn fmt(&self, f: &mut std::fmt::Formatter<'_>) -> std::fmt::Result {
        write!(f, "state@{}", self.depth)
    }
}
impl<G: GroupApi> PartialEq for SrState<G> {
    fn eq(&self, o: &Self) -> bool {
        self.key == o.key
    }
}
impl<G: GroupApi> Eq for SrState<G> {}
impl<G: GroupApi> Hash for SrState<G> {
    fn hash<H: Hasher>(&self, h: &mut H) {
        self.key.hash(h)
    }
}
pub struct Machine<G: GroupApi> {
    ops: Vec<Op>,
    max_depth: usize,
    _g: std::marker::PhantomData<G>,
}
impl<G: GroupApi> Model for Machine<G> {
    type State = SrState<G>;
    type Action = usize;
    fn init_states(&self) -> Vec<Self::State> {
        let st = init::<G>();
        vec![SrState { key: key(&st), depth: 0, st }]
    }
    fn actions(&self, s: &Self::State, out: &mut Vec<usize>) {
        if s.depth < self.max_depth {
            out.extend(0..self.ops.len());
        }
    }
    fn next_state(&self, s: &Self::State, a: usize) -> Option<Self::State> {
        match step::<G>(&s.st, &self.ops[a]) {
            Some(Ok(st)) => Some(SrState { key: key(&st), depth: s.depth + 1, st }),
            // a failing step is reported by the primary explorer; here it simply has no successor
            _ => None,
        }
    }
    fn properties(&self) -> Vec<Property<Self>> {
        vec![Property::always("state invariant", |_, s: &SrState<G>| invariant::<G>(&s.st).is_ok())]
    }
}
/// returns (unique states, invariant violated?)
pub fn explore<G: GroupApi>(depth: usize) -> (usize, bool) {
    let m = Machine::<G> { ops: menu(), max_depth: depth, _g: std::marker::PhantomData };
    let c = m.checker().threads(1).spawn_bfs().join();
    (c.unique_state_count(), !c.discoveries().is_empty())
}

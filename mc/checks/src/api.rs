//! The seam between the reference model and the real library: every value crosses it through the
//! PUBLIC API of sm9_core (byte constructors / encoders), never through internals.

use mccore::alpha::two;
use mccore::{jn, Bad};
use num_traits::{One, Zero};
use refmodel::{be32, consts, ec_mul, from_be, n, negm, q, r, sqrt_mod, F2, Fld, Fmt, Fq as RFq, Pt, N};
use serde_json::{json, Value};
use sm9_core::{AffineG1, AffineG2, Fq, Fq2, Fr, Group, Gt, G1, G2};
use std::collections::HashMap;
use std::sync::Mutex;

/// run library code; a panic is an observation, not a crash of the harness
pub fn guard<T>(f: impl FnOnce() -> T) -> Result<T, String> {
    std::panic::catch_unwind(std::panic::AssertUnwindSafe(f)).map_err(|p| mccore::panic_msg(&p))
}
pub fn lib<T>(what: &str, f: impl FnOnce() -> T) -> Result<T, Bad> {
    guard(f).map_err(|m| Bad { class: "panic".into(), msg: format!("{} panicked: {}", what, m) })
}

pub fn fq(x: &N) -> Fq {
    debug_assert!(x < q());
    Fq::from_slice(&be32(x)).expect("32-byte slice")
}
pub fn fqv(x: &Fq) -> N {
    from_be(&x.to_slice())
}
pub fn fr(x: &N) -> Fr {
    debug_assert!(x < r());
    Fr::from_slice(&be32(x)).expect("32-byte slice")
}
pub fn frv(x: &Fr) -> N {
    from_be(&x.to_slice())
}
pub fn fq2(x: &F2) -> Fq2 {
    Fq2::new(fq(&x.a), fq(&x.b))
}
pub fn fq2v(x: &Fq2) -> F2 {
    F2 { a: fqv(&x.real()), b: fqv(&x.imaginary()) }
}
pub fn jf2(x: &F2) -> Value {
    json!({"re": jn(&x.a), "im": jn(&x.b)})
}
pub fn gf2(v: &Value) -> F2 {
    F2 { a: mccore::gn(v, "re"), b: mccore::gn(v, "im") }
}
pub fn gt_bytes(g: &Gt) -> Vec<u8> {
    g.to_slice().to_vec()
}

// ---------------------------------------------------------------------------------------------
// one interface over G1 and G2
// ---------------------------------------------------------------------------------------------
pub trait GroupApi:
    Group + Copy + Send + Sync + std::fmt::Debug + core::ops::Mul<Fr, Output = Self> + 'static
{
    /// reference field of the coordinates
    type RF: Fld + Send + Sync + std::hash::Hash + Eq + Ord;
    const NAME: &'static str;
    fn new_jac(x: &Self::RF, y: &Self::RF, z: &Self::RF) -> Self;
    fn coords(&self) -> (Self::RF, Self::RF, Self::RF);
    fn ref_gen() -> Pt<Self::RF>;
    fn ref_b() -> Self::RF;
    fn rf_json(x: &Self::RF) -> Value;
    fn rf_from_json(v: &Value) -> Self::RF;
    fn rf_bytes(x: &Self::RF) -> Vec<u8>;
    fn rf_generic(seed: u64, k: u64) -> Self::RF;
    fn rf_sqrt(x: &Self::RF) -> Option<Self::RF>;
    fn rf_cbrt(x: &Self::RF) -> Option<Self::RF>;
    fn rf_from_n(x: &N) -> Self::RF;
    fn encode(&self, f: Fmt) -> Vec<u8>;
    fn decode(f: Fmt, b: &[u8]) -> Result<Self, String>;
    fn ref_encode(p: &Pt<Self::RF>, f: Fmt) -> Option<Vec<u8>>;
    fn ref_decode(f: Fmt, b: &[u8]) -> Option<Pt<Self::RF>>;
    fn enc_len(f: Fmt) -> usize;
    fn affine_roundtrip(&self) -> Option<Self>;
    /// AffineG::new(x, y) -> Ok(point as group element) / Err(text)
    fn affine_new(x: &Self::RF, y: &Self::RF) -> Result<Self, String>;
    fn affine_xy(&self) -> Option<(Self::RF, Self::RF)>;
    fn cache() -> &'static Mutex<HashMap<N, Pt<Self::RF>>>;
    /// k * P (the scalar on the left)
    fn lmul(k: Fr, p: Self) -> Self;
    /// additional Jacobian scale factors that hit structurally special values of the coordinate field
    /// (for F_q2: purely imaginary and mixed elements; for F_q nothing beyond 2, -1, generic)
    fn extra_scales(_seed: u64) -> Vec<Self::RF> {
        vec![]
    }
    /// embeddings of a base-field value into the coordinate field that are used as scale factors
    fn scale_embeddings(x: &N) -> Vec<Self::RF> {
        vec![Self::rf_from_n(x)]
    }
}

/// cached reference scalar multiple d*G (d reduced mod r)
pub fn ref_mul<G: GroupApi>(d: &N) -> Pt<G::RF>
{
    let d = d % r();
    if let Some(p) = G::cache().lock().unwrap().get(&d) {
        return p.clone();
    }
    let p = ec_mul(&G::ref_gen(), &d);
    G::cache().lock().unwrap().insert(d, p.clone());
    p
}

impl GroupApi for G1 {
    type RF = RFq;
    const NAME: &'static str = "G1";
    fn new_jac(x: &RFq, y: &RFq, z: &RFq) -> Self {
        G1::new(fq(&x.0), fq(&y.0), fq(&z.0))
    }
    fn coords(&self) -> (RFq, RFq, RFq) {
        (RFq(fqv(&self.x())), RFq(fqv(&self.y())), RFq(fqv(&self.z())))
    }
    fn ref_gen() -> Pt<RFq> {
        consts().g1.clone()
    }
    fn ref_b() -> RFq {
        refmodel::b1()
    }
    fn rf_json(x: &RFq) -> Value {
        jn(&x.0)
    }
    fn rf_from_json(v: &Value) -> RFq {
        RFq(refmodel::nhex(v.as_str().expect("hex").trim_start_matches("0x")))
    }
    fn rf_bytes(x: &RFq) -> Vec<u8> {
        be32(&x.0).to_vec()
    }
    fn rf_generic(seed: u64, k: u64) -> RFq {
        RFq(mccore::alpha::generic(q(), seed, 0x6100 + k, 1).pop().unwrap())
    }
    fn rf_sqrt(x: &RFq) -> Option<RFq> {
        sqrt_mod(&x.0, q()).map(RFq)
    }
    fn rf_cbrt(x: &RFq) -> Option<RFq> {
        // q = 1 mod 3: cube roots exist for a third of the elements; q-1 = 3^k * m
        cbrt_fq(&x.0).map(RFq)
    }
    fn rf_from_n(x: &N) -> RFq {
        RFq(x % q())
    }
    fn encode(&self, f: Fmt) -> Vec<u8> {
        match f {
            Fmt::Raw => self.to_slice().to_vec(),
            Fmt::Uncompressed => self.to_uncompressed().to_vec(),
            Fmt::Compressed => self.to_compressed().to_vec(),
        }
    }
    fn decode(f: Fmt, b: &[u8]) -> Result<Self, String> {
        match f {
            Fmt::Raw => G1::from_slice(b),
            Fmt::Uncompressed => G1::from_uncompressed(b),
            Fmt::Compressed => G1::from_compressed(b),
        }
        .map_err(|e| format!("{:?}", e))
    }
    fn ref_encode(p: &Pt<RFq>, f: Fmt) -> Option<Vec<u8>> {
        match f {
            Fmt::Raw => refmodel::g1_raw(p),
            Fmt::Uncompressed => refmodel::g1_uncompressed(p),
            Fmt::Compressed => refmodel::g1_compressed(p),
        }
    }
    fn ref_decode(f: Fmt, b: &[u8]) -> Option<Pt<RFq>> {
        refmodel::g1_decode(f, b)
    }
    fn enc_len(f: Fmt) -> usize {
        match f {
            Fmt::Raw => 64,
            Fmt::Uncompressed => 65,
            Fmt::Compressed => 33,
        }
    }
    fn affine_roundtrip(&self) -> Option<Self> {
        AffineG1::from_jacobian(*self).map(G1::from)
    }
    fn affine_new(x: &RFq, y: &RFq) -> Result<Self, String> {
        AffineG1::new(fq(&x.0), fq(&y.0)).map(G1::from).map_err(|e| format!("{:?}", e))
    }
    fn affine_xy(&self) -> Option<(RFq, RFq)> {
        AffineG1::from_jacobian(*self).map(|a| (RFq(fqv(&a.x())), RFq(fqv(&a.y()))))
    }
    fn cache() -> &'static Mutex<HashMap<N, Pt<RFq>>> {
        static CC: std::sync::OnceLock<Mutex<HashMap<N, Pt<RFq>>>> = std::sync::OnceLock::new();
        CC.get_or_init(|| Mutex::new(HashMap::new()))
    }
    fn lmul(k: Fr, p: Self) -> Self {
        k * p
    }
}

impl GroupApi for G2 {
    type RF = F2;
    const NAME: &'static str = "G2";
    fn new_jac(x: &F2, y: &F2, z: &F2) -> Self {
        G2::new(fq2(x), fq2(y), fq2(z))
    }
    fn coords(&self) -> (F2, F2, F2) {
        (fq2v(&self.x()), fq2v(&self.y()), fq2v(&self.z()))
    }
    fn ref_gen() -> Pt<F2> {
        consts().g2.clone()
    }
    fn ref_b() -> F2 {
        refmodel::b2()
    }
    fn rf_json(x: &F2) -> Value {
        jf2(x)
    }
    fn rf_from_json(v: &Value) -> F2 {
        gf2(v)
    }
    fn rf_bytes(x: &F2) -> Vec<u8> {
        refmodel::f2_bytes(x)
    }
    fn rf_generic(seed: u64, k: u64) -> F2 {
        let mut g = mccore::alpha::generic(q(), seed, 0x6200 + k, 2);
        let b = g.pop().unwrap();
        let a = g.pop().unwrap();
        F2 { a, b }
    }
    fn rf_sqrt(x: &F2) -> Option<F2> {
        x.sqrt()
    }
    fn rf_cbrt(x: &F2) -> Option<F2> {
        cbrt_f2(x)
    }
    fn rf_from_n(x: &N) -> F2 {
        F2 { a: x % q(), b: N::zero() }
    }
    fn encode(&self, f: Fmt) -> Vec<u8> {
        match f {
            Fmt::Raw => self.to_slice().to_vec(),
            Fmt::Uncompressed => self.to_uncompressed().to_vec(),
            Fmt::Compressed => self.to_compressed().to_vec(),
        }
    }
    fn decode(f: Fmt, b: &[u8]) -> Result<Self, String> {
        match f {
            Fmt::Raw => G2::from_slice(b),
            Fmt::Uncompressed => G2::from_uncompressed(b),
            Fmt::Compressed => G2::from_compressed(b),
        }
        .map_err(|e| format!("{:?}", e))
    }
    fn ref_encode(p: &Pt<F2>, f: Fmt) -> Option<Vec<u8>> {
        match f {
            Fmt::Raw => refmodel::g2_raw(p),
            Fmt::Uncompressed => refmodel::g2_uncompressed(p),
            Fmt::Compressed => refmodel::g2_compressed(p),
        }
    }
    fn ref_decode(f: Fmt, b: &[u8]) -> Option<Pt<F2>> {
        refmodel::g2_decode(f, b)
    }
    fn enc_len(f: Fmt) -> usize {
        match f {
            Fmt::Raw => 128,
            Fmt::Uncompressed => 129,
            Fmt::Compressed => 65,
        }
    }
    fn affine_roundtrip(&self) -> Option<Self> {
        AffineG2::from_jacobian(*self).map(G2::from)
    }
    fn affine_new(x: &F2, y: &F2) -> Result<Self, String> {
        AffineG2::new(fq2(x), fq2(y)).map(G2::from).map_err(|e| format!("{:?}", e))
    }
    fn affine_xy(&self) -> Option<(F2, F2)> {
        AffineG2::from_jacobian(*self).map(|a| (fq2v(&a.x()), fq2v(&a.y())))
    }
    fn cache() -> &'static Mutex<HashMap<N, Pt<F2>>> {
        static CC: std::sync::OnceLock<Mutex<HashMap<N, Pt<F2>>>> = std::sync::OnceLock::new();
        CC.get_or_init(|| Mutex::new(HashMap::new()))
    }
    fn lmul(k: Fr, p: Self) -> Self {
        k * p
    }
    fn extra_scales(seed: u64) -> Vec<F2> {
        let g = mccore::alpha::generic(q(), seed, 0x6300, 1).pop().unwrap();
        vec![
            F2 { a: N::zero(), b: N::one() },        // u: purely imaginary
            F2 { a: N::zero(), b: q() - n(1) },      // -u
            F2 { a: N::zero(), b: g },               // t*u
            F2 { a: N::one(), b: N::one() },         // 1 + u
        ]
    }
    fn scale_embeddings(x: &N) -> Vec<F2> {
        vec![F2 { a: x % q(), b: N::zero() }, F2 { a: N::zero(), b: x % q() }]
    }
}

/// k with 3k = 1 mod m (m not divisible by 3)
fn inv3(m: &N) -> N {
    for j in 1u64..3 {
        let t = n(1) + n(j) * m;
        if (&t % n(3)).is_zero() {
            return t / n(3);
        }
    }
    unreachable!()
}
/// cube root in F_q (q = 1 mod 3), by Adleman-Manders-Miller style search in the 3-Sylow part
pub fn cbrt_fq(a: &N) -> Option<N> {
    let p = q();
    let a = a % p;
    if a.is_zero() {
        return Some(N::zero());
    }
    let pm1 = p - n(1);
    if !a.modpow(&(&pm1 / n(3)), p).is_one() {
        return None;
    }
    // p - 1 = 3^s * m, 3 does not divide m
    let mut m = pm1.clone();
    let mut s = 0u32;
    while (&m % n(3)).is_zero() {
        m /= n(3);
        s += 1;
    }
    // x0 = a^k with 3k = 1 mod m  => x0^3 = a * a^(3k-1), and a^(3k-1) has 3-power order
    let k = inv3(&m);
    let mut x = a.modpow(&k, p);
    // generator of the 3-Sylow subgroup
    let mut g = n(2);
    let gen = loop {
        let c = g.modpow(&m, p);
        if !c.modpow(&n(3).pow(s - 1), p).is_one() {
            break c;
        }
        g += n(1);
    };
    // correct x by elements of the 3-Sylow subgroup: brute force over its 3^s elements is tiny
    let ord = n(3).pow(s);
    let mut cur = N::one();
    let mut i = N::zero();
    while i < ord {
        let cand = (&x * &cur) % p;
        if cand.modpow(&n(3), p) == a {
            x = cand;
            return Some(x);
        }
        cur = (&cur * &gen) % p;
        i += n(1);
    }
    None
}
/// cube root in F_q2 by the same method (group order q^2-1)
pub fn cbrt_f2(a: &F2) -> Option<F2> {
    if a.is_zero() {
        return Some(F2::zero());
    }
    let p = q();
    let ord = p * p - n(1);
    if a.pow(&(&ord / n(3))) != F2::one() {
        return None;
    }
    let mut m = ord.clone();
    let mut s = 0u32;
    while (&m % n(3)).is_zero() {
        m /= n(3);
        s += 1;
    }
    let k = inv3(&m);
    let x = a.pow(&k);
    let mut gen = None;
    'o: for ga in 0u64..10 {
        for gb in 1u64..10 {
            let c = F2 { a: n(ga), b: n(gb) }.pow(&m);
            if c.pow(&n(3).pow(s - 1)) != F2::one() {
                gen = Some(c);
                break 'o;
            }
        }
    }
    let gen = gen?;
    let total = 3u64.pow(s);
    if total > 100_000 {
        return None;
    }
    let mut cur = F2::one();
    for _ in 0..total {
        let cand = x.mul(&cur);
        if cand.sq().mul(&cand) == *a {
            return Some(cand);
        }
        cur = cur.mul(&gen);
    }
    None
}

// ---------------------------------------------------------------------------------------------
// representatives of the group element d*G
// ---------------------------------------------------------------------------------------------
#[derive(Clone, Debug, PartialEq)]
pub enum Rep<RF> {
    /// new(x, y, 1)
    Aff,
    /// G::one() * Fr(d)
    LibMul,
    /// (G*(d+3)) - (G*3), both operands Jacobian
    LibSub,
    /// new(s^2 x, s^3 y, s)
    Scaled(RF),
    /// Scaled(s) with s chosen so that X == 1 (needs sqrt(1/x))
    ScaledX1,
    /// Scaled(s) with s chosen so that Y == 1 (needs a cube root of 1/y)
    ScaledY1,
    // identity representatives (d must be 0)
    Id0,
    IdMul,
    /// P - P with both operands affine
    IdSub,
    /// P - P with Jacobian operands
    IdSubJ,
    /// new(x, y, 0)
    IdNew(RF, RF),
}
impl<RF> Rep<RF> {
    pub fn is_identity_rep(&self) -> bool {
        matches!(self, Rep::Id0 | Rep::IdMul | Rep::IdSub | Rep::IdSubJ | Rep::IdNew(_, _))
    }
    pub fn short(&self) -> &'static str {
        match self {
            Rep::Aff => "Aff",
            Rep::LibMul => "LibMul",
            Rep::LibSub => "LibSub",
            Rep::Scaled(_) => "Scaled",
            Rep::ScaledX1 => "ScaledX1",
            Rep::ScaledY1 => "ScaledY1",
            Rep::Id0 => "Id0",
            Rep::IdMul => "IdMul",
            Rep::IdSub => "IdSub",
            Rep::IdSubJ => "IdSubJ",
            Rep::IdNew(_, _) => "IdNew",
        }
    }
}
pub fn rep_json<G: GroupApi>(rp: &Rep<G::RF>) -> Value
{
    match rp {
        Rep::Scaled(s) => json!({"rep": "Scaled", "s": G::rf_json(s)}),
        Rep::IdNew(x, y) => json!({"rep": "IdNew", "x": G::rf_json(x), "y": G::rf_json(y)}),
        o => json!({"rep": o.short()}),
    }
}
pub fn rep_from_json<G: GroupApi>(v: &Value) -> Rep<G::RF>
{
    match v["rep"].as_str().expect("rep") {
        "Aff" => Rep::Aff,
        "LibMul" => Rep::LibMul,
        "LibSub" => Rep::LibSub,
        "Scaled" => Rep::Scaled(G::rf_from_json(&v["s"])),
        "ScaledX1" => Rep::ScaledX1,
        "ScaledY1" => Rep::ScaledY1,
        "Id0" => Rep::Id0,
        "IdMul" => Rep::IdMul,
        "IdSub" => Rep::IdSub,
        "IdSubJ" => Rep::IdSubJ,
        "IdNew" => Rep::IdNew(G::rf_from_json(&v["x"]), G::rf_from_json(&v["y"])),
        o => panic!("unknown rep {}", o),
    }
}

/// a concrete library value denoting d*G, with its description
#[derive(Clone, Debug)]
pub struct Val<G: GroupApi>
{
    pub d: N,
    pub rep: Rep<G::RF>,
    pub v: G,
}
impl<G: GroupApi> Val<G>
{
    pub fn json(&self) -> Value {
        let mut j = rep_json::<G>(&self.rep);
        j["d"] = jn(&self.d);
        j["group"] = json!(G::NAME);
        j
    }
    pub fn from_json(v: &Value) -> Val<G> {
        let d = mccore::gn(v, "d");
        let rep = rep_from_json::<G>(v);
        build::<G>(&d, &rep).expect("replay value can be rebuilt")
    }
}

fn scaled<G: GroupApi>(p: &Pt<G::RF>, s: &G::RF) -> G
{
    let (x, y) = p.xy().expect("non-identity");
    let s2 = s.sq();
    G::new_jac(&s2.mul(x), &s2.mul(s).mul(y), s)
}

/// build the representative `rep` of d*G through the public API; None when the representative does
/// not exist for this d (e.g. no square root) or does not apply (identity vs non-identity)
pub fn build<G: GroupApi>(d: &N, rep: &Rep<G::RF>) -> Option<Val<G>>
{
    let d = d % r();
    let is_id = d.is_zero();
    if is_id != rep.is_identity_rep() {
        return None;
    }
    let v: G = match rep {
        Rep::Aff => {
            let p = ref_mul::<G>(&d);
            let (x, y) = p.xy()?;
            G::new_jac(x, y, &G::RF::one())
        }
        Rep::LibMul => G::one() * fr(&d),
        Rep::LibSub => {
            let a = G::one() * fr(&((&d + n(3)) % r()));
            let b = G::one() * fr(&n(3));
            a - b
        }
        Rep::Scaled(s) => {
            if s.is_zero() {
                return None;
            }
            scaled::<G>(&ref_mul::<G>(&d), s)
        }
        Rep::ScaledX1 => {
            let p = ref_mul::<G>(&d);
            let (x, _) = p.xy()?;
            let s = G::rf_sqrt(&x.inv()?)?;
            if s == G::RF::one() {
                return None;
            }
            scaled::<G>(&p, &s)
        }
        Rep::ScaledY1 => {
            let p = ref_mul::<G>(&d);
            let (_, y) = p.xy()?;
            let s = G::rf_cbrt(&y.inv()?)?;
            if s == G::RF::one() {
                return None;
            }
            scaled::<G>(&p, &s)
        }
        Rep::Id0 => G::zero(),
        Rep::IdMul => G::one() * fr(&N::zero()),
        Rep::IdSub => G::one() - G::one(),
        Rep::IdSubJ => {
            let a = G::one() * fr(&n(5));
            a - a
        }
        Rep::IdNew(x, y) => G::new_jac(x, y, &G::RF::zero()),
    };
    // The representative is an INPUT of the check that asked for it, not its subject: if the operations used to
    // construct it (scalar multiplication, subtraction, ...) do not produce a value denoting d*G, that is some
    // other property's violation. Such a member is dropped from the alphabet (and listed in the evidence), so
    // that every check alarms only on its own property.
    if alpha::<G>(&v) != ref_mul::<G>(&d) {
        SKIPPED.lock().unwrap().push(format!("{} d={:x} rep={}", G::NAME, d, rep.short()));
        return None;
    }
    Some(Val { d, rep: rep.clone(), v })
}
/// alphabet members that could not be constructed as specified (see `build`)
pub static SKIPPED: Mutex<Vec<String>> = Mutex::new(Vec::new());

/// the representation alphabet REP for non-identity elements
pub fn reps_nonid<G: GroupApi>(seed: u64, extra_scales: &[G::RF]) -> Vec<Rep<G::RF>>
{
    let mut v = vec![
        Rep::Aff,
        Rep::LibMul,
        Rep::LibSub,
        Rep::Scaled(G::RF::small(2)),
        Rep::Scaled(G::RF::one().neg()),
        Rep::Scaled(G::rf_generic(seed, 1)),
        Rep::ScaledX1,
        Rep::ScaledY1,
    ];
    for s in extra_scales {
        v.push(Rep::Scaled(s.clone()));
    }
    for s in G::extra_scales(seed) {
        v.push(Rep::Scaled(s));
    }
    v
}
pub fn reps_id<G: GroupApi>(seed: u64) -> Vec<Rep<G::RF>>
{
    let g = G::ref_gen();
    let (gx, gy) = g.xy().unwrap();
    vec![
        Rep::Id0,
        Rep::IdMul,
        Rep::IdSub,
        Rep::IdSubJ,
        Rep::IdNew(G::RF::zero(), G::RF::zero()),
        Rep::IdNew(G::RF::one(), G::RF::one()),
        Rep::IdNew(gx.clone(), gy.clone()),
        Rep::IdNew(G::rf_generic(seed, 7), G::rf_generic(seed, 8)),
    ]
}

/// all concrete values: (every d in ds) x (every non-identity rep) plus every identity rep
pub fn all_values<G: GroupApi>(ds: &[N], nonid: &[Rep<G::RF>], id: &[Rep<G::RF>]) -> Vec<Val<G>>
{
    let mut out = vec![];
    for d in ds {
        for rp in nonid {
            if let Some(v) = build::<G>(d, rp) {
                out.push(v);
            }
        }
    }
    for rp in id {
        if let Some(v) = build::<G>(&N::zero(), rp) {
            out.push(v);
        }
    }
    out
}

/// abstraction function: library value -> reference affine point (None = identity), through x/y/z accessors
pub fn alpha<G: GroupApi>(v: &G) -> Pt<G::RF>
{
    let (x, y, z) = v.coords();
    refmodel::jac_to_aff(&x, &y, &z)
}

pub fn pt_json<G: GroupApi>(p: &Pt<G::RF>) -> Value
{
    match p {
        Pt::Inf => json!("O"),
        Pt::Aff(x, y) => json!({"x": G::rf_json(x), "y": G::rf_json(y)}),
    }
}

#[allow(dead_code)]
pub fn unused() {
    let _ = (two(1), negm(&n(1), q()));
}

//! C08 — point decoders are total, strict and build-profile independent.
//! C09 — only points of the curve and of the order-r subgroup pass validated construction.

use crate::api::{alpha, lib, pt_json, ref_mul, GroupApi};
use mccore::alpha::{dlogs, two};
use mccore::{ensure, gb, gs, jb, Bad, Meta, Run, Spec, Tally, Tier};
use num_traits::{One, Zero};
use refmodel::{be, consts, ec_add, ec_mul, from_be, in_g2, n, on_curve, q, r, F2, Fld, Fmt, Fq as RFq, Pt, N};
use serde_json::{json, Value};
use sm9_core::{Fq2, G1, G2};
use std::collections::HashSet;

fn fmt_of(s: &str) -> Fmt {
    match s {
        "raw" => Fmt::Raw,
        "uncompressed" => Fmt::Uncompressed,
        "compressed" => Fmt::Compressed,
        o => panic!("unknown format {}", o),
    }
}

/// one decoder call against the reference decoder
pub fn decode_case<G: GroupApi>(f: Fmt, b: &[u8]) -> Result<u32, Bad> {
    decode_case_opt::<G>(f, b, true)
}
/// `strict`: also require that an accepted input denotes the reference point and re-encodes to the input
/// (C08); with strict = false only acceptance / rejection is compared (C09)
pub fn decode_case_opt<G: GroupApi>(f: Fmt, b: &[u8], strict: bool) -> Result<u32, Bad> {
    let want = G::ref_decode(f, b);
    let got = lib(&format!("{} {} decoder on {} bytes", G::NAME, f.name(), b.len()), || G::decode(f, b))?;
    match (got, want) {
        (Err(_), None) => Ok(1),
        (Ok(_), Some(_)) if !strict => Ok(1),
        (Ok(g), Some(w)) => {
            let a = alpha::<G>(&g);
            ensure!(a == w, "wrong-point", "{} {} decoder: {} decodes to {} , expected {}", G::NAME, f.name(), refmodel::hex(b), pt_json::<G>(&a), pt_json::<G>(&w));
            let re = lib("re-encode", || g.encode(f))?;
            ensure!(re == b, "reencode", "{} {} decoder accepted {} but re-encodes it as {}", G::NAME, f.name(), refmodel::hex(b), refmodel::hex(&re));
            Ok(2)
        }
        (Ok(g), None) => {
            let re = lib("re-encode", || g.encode(f)).unwrap_or_default();
            mccore::bad(
                classify_accept::<G>(f, b),
                format!(
                    "{} {} decoder ACCEPTS {} ({} bytes) which is not a valid encoding [{}]; it re-encodes as {}",
                    G::NAME,
                    f.name(),
                    refmodel::hex(b),
                    b.len(),
                    why_invalid::<G>(f, b),
                    refmodel::hex(&re)
                ),
            )
        }
        (Err(e), Some(_)) => mccore::bad("rejects-valid", format!("{} {} decoder rejects the valid encoding {}: {}", G::NAME, f.name(), refmodel::hex(b), e)),
    }
}
fn coord_slots<G: GroupApi>(f: Fmt, b: &[u8]) -> Option<Vec<N>> {
    if b.len() != G::enc_len(f) {
        return None;
    }
    let body = if f == Fmt::Raw { b } else { &b[1..] };
    Some(body.chunks(32).map(from_be).collect())
}
fn why_invalid<G: GroupApi>(f: Fmt, b: &[u8]) -> String {
    if b.len() != G::enc_len(f) {
        return format!("length {} != {}", b.len(), G::enc_len(f));
    }
    match f {
        Fmt::Uncompressed if b[0] != 4 => return format!("prefix {:#04x} != 0x04", b[0]),
        Fmt::Compressed if b[0] != 2 && b[0] != 3 => return format!("prefix {:#04x} not in {{0x02, 0x03}}", b[0]),
        _ => {}
    }
    if let Some(cs) = coord_slots::<G>(f, b) {
        if cs.iter().any(|c| c >= q()) {
            return "a coordinate is >= q".into();
        }
    }
    "not on the curve / not in the subgroup".into()
}
fn classify_accept<G: GroupApi>(f: Fmt, b: &[u8]) -> &'static str {
    if b.len() != G::enc_len(f) {
        return "accepts-wrong-length";
    }
    match f {
        Fmt::Uncompressed if b[0] != 4 => return "accepts-wrong-prefix",
        Fmt::Compressed if b[0] != 2 && b[0] != 3 => return "accepts-wrong-prefix",
        _ => {}
    }
    if let Some(cs) = coord_slots::<G>(f, b) {
        if cs.iter().any(|c| c >= q()) {
            return "accepts-coordinate>=q";
        }
    }
    "accepts-non-member"
}
pub fn fq2_case(b: &[u8]) -> Result<u32, Bad> {
    let want = if b.len() == 64 {
        let (im, re) = (from_be(&b[..32]), from_be(&b[32..]));
        if &im < q() && &re < q() {
            Some(F2 { a: re, b: im })
        } else {
            None
        }
    } else {
        None
    };
    let got = lib(&format!("Fq2::from_slice on {} bytes", b.len()), || Fq2::from_slice(b))?;
    let got2 = lib("Fq2::try_from", || Fq2::try_from(b).ok())?;
    ensure!(got.is_some() == got2.is_some(), "accept-reject", "Fq2 from_slice / TryFrom disagree on {}", refmodel::hex(b));
    match (got, want) {
        (None, None) => Ok(1),
        (Some(g), Some(w)) => {
            ensure!(crate::api::fq2v(&g) == w, "wrong-value", "Fq2::from_slice({}) has the wrong value", refmodel::hex(b));
            ensure!(g.to_slice().to_vec() == b, "reencode", "Fq2::from_slice({}) re-encodes differently", refmodel::hex(b));
            Ok(2)
        }
        (g, w) => mccore::bad(
            if g.is_some() { "accepts-coordinate>=q" } else { "rejects-valid" },
            format!("Fq2::from_slice({}) is_some={} but the reference says {}", refmodel::hex(b), g.is_some(), w.is_some()),
        ),
    }
}

// ---------------------------------------------------------------------------------------------
// the BYTES alphabet
// ---------------------------------------------------------------------------------------------
pub fn twist_points(count: usize) -> Vec<Pt<F2>> {
    // the first admissible x in a fixed enumeration of small elements of F_q2
    let mut out = vec![];
    let mut k = 0u64;
    while out.len() < count {
        let x = F2 { a: n(k / 7), b: n(1 + k % 7) };
        k += 1;
        let y2 = x.sq().mul(&x).add(&refmodel::b2());
        if let Some(y) = y2.sqrt() {
            out.push(Pt::Aff(x, y));
        }
    }
    out
}

pub struct Corpus {
    pub items: Vec<(Fmt, Vec<u8>)>,
}
fn push(set: &mut HashSet<(Fmt, Vec<u8>)>, items: &mut Vec<(Fmt, Vec<u8>)>, f: Fmt, b: Vec<u8>) {
    if set.insert((f, b.clone())) {
        items.push((f, b));
    }
}
pub fn corpus<G: GroupApi>(tier: Tier, seed: u64) -> Corpus {
    let mut set = HashSet::new();
    let mut items = vec![];
    let ds: Vec<N> = {
        let mut v = dlogs(Tier::Quick, seed);
        // at least two points whose x (first 32-byte slot) is < 2^256 - q so that x + q still fits
        let lim = two(256) - q();
        let mut d = 2u64;
        let mut have = 0;
        while have < 2 && d < 400 {
            let p = ref_mul::<G>(&n(d));
            let raw = G::ref_encode(&p, Fmt::Raw).unwrap();
            if from_be(&raw[..32]) < lim && from_be(&raw[32..64]) < lim {
                if !v.contains(&n(d)) {
                    v.push(n(d));
                }
                have += 1;
            }
            d += 1;
        }
        if tier == Tier::Thorough {
            for x in dlogs(Tier::Thorough, seed) {
                if !v.contains(&x) {
                    v.push(x);
                }
            }
        }
        v
    };
    let valid: Vec<Vec<(Fmt, Vec<u8>)>> = ds
        .iter()
        .map(|d| {
            let p = ref_mul::<G>(d);
            Fmt::ALL.iter().map(|f| (*f, G::ref_encode(&p, *f).unwrap())).collect()
        })
        .collect();
    let other: Vec<Vec<u8>> = {
        // encodings of the OTHER group, for cross-format confusion
        let mut o = vec![];
        for d in ds.iter().take(3) {
            if G::NAME == "G1" {
                let p = ref_mul::<G2>(d);
                for f in Fmt::ALL {
                    o.push(<G2 as GroupApi>::ref_encode(&p, f).unwrap());
                }
            } else {
                let p = ref_mul::<G1>(d);
                for f in Fmt::ALL {
                    o.push(<G1 as GroupApi>::ref_encode(&p, f).unwrap());
                }
            }
        }
        o
    };
    for f in Fmt::ALL {
        // every length 0..=140: constant patterns, truncations and extensions of valid encodings
        for len in 0..=140usize {
            push(&mut set, &mut items, f, vec![0u8; len]);
            push(&mut set, &mut items, f, vec![0xFFu8; len]);
            for pf in [2u8, 3, 4] {
                if len > 0 {
                    let mut v = vec![0u8; len];
                    v[0] = pf;
                    push(&mut set, &mut items, f, v);
                }
            }
            for enc in valid.iter().take(2) {
                for (_, e) in enc {
                    for fill in [0u8, 0xFF] {
                        let mut v = e.clone();
                        v.resize(len, fill);
                        push(&mut set, &mut items, f, v);
                    }
                }
            }
        }
        // cross-format confusion: every valid encoding of every format of both groups into this decoder
        for enc in &valid {
            for (_, e) in enc {
                push(&mut set, &mut items, f, e.clone());
            }
        }
        for e in &other {
            push(&mut set, &mut items, f, e.clone());
        }
    }
    // the valid encodings of every small discrete log (no corruption): decorrelates the corpus from rules that
    // agree with the SM9 conventions on a handful of points only
    for d in 4..=tier.pick(40u64, 128) {
        let p = ref_mul::<G>(&n(d));
        for f in Fmt::ALL {
            push(&mut set, &mut items, f, G::ref_encode(&p, f).unwrap());
        }
    }
    let npts = tier.pick(8, ds.len());
    for enc in valid.iter().take(npts) {
        for (f, e) in enc {
            // every value of byte 0 (all 256 prefix bytes)
            for v0 in 0..=255u8 {
                let mut v = e.clone();
                v[0] = v0;
                push(&mut set, &mut items, *f, v);
            }
            // every single-bit flip
            for bit in 0..e.len() * 8 {
                let mut v = e.clone();
                v[bit / 8] ^= 1 << (bit % 8);
                push(&mut set, &mut items, *f, v);
            }
            // +-1 on every byte
            if tier == Tier::Thorough {
                for i in 0..e.len() {
                    for dlt in [1u8, 0xFF] {
                        let mut v = e.clone();
                        v[i] = v[i].wrapping_add(dlt);
                        push(&mut set, &mut items, *f, v);
                    }
                }
            }
            // coordinate substitutions
            let off = if *f == Fmt::Raw { 0 } else { 1 };
            let slots = (e.len() - off) / 32;
            for s in 0..slots {
                let cur = from_be(&e[off + 32 * s..off + 32 * s + 32]);
                let mut subs: Vec<N> = vec![q().clone(), q() + n(1), two(256) - n(1), N::zero(), q() - n(1), N::one()];
                if &cur + q() < two(256) {
                    subs.push(&cur + q());
                }
                for sv in subs {
                    let mut v = e.clone();
                    v[off + 32 * s..off + 32 * s + 32].copy_from_slice(&be(&sv, 32));
                    push(&mut set, &mut items, *f, v);
                }
            }
            // off-by-one lengths
            let mut v = e.clone();
            v.pop();
            push(&mut set, &mut items, *f, v);
            let mut v = e.clone();
            v.push(0);
            push(&mut set, &mut items, *f, v);
            let mut v = vec![0u8];
            v.extend(e.iter());
            push(&mut set, &mut items, *f, v);
        }
    }
    // structured OFF-curve points that still pass an order test: the a = 0 point formulas never use b, so
    // (s^2 x, s^3 y) - a Jacobian representative with its z dropped - has order r on y^2 = x^3 + b s^6, and a point
    // of E(F_q) read as F_q2 coordinates has order r on y^2 = x^3 + 5. A decoder that checks the order but not
    // the curve equation accepts exactly these.
    {
        let mut scales: Vec<G::RF> = vec![G::RF::small(2), G::RF::small(3), G::rf_generic(seed, 3)];
        scales.extend(G::extra_scales(seed));
        for d in ds.iter().take(3) {
            if let Some((x, y)) = ref_mul::<G>(d).xy() {
                for sc in &scales {
                    let s2 = sc.sq();
                    let pt = Pt::Aff(s2.mul(x), s2.mul(sc).mul(y));
                    for f in Fmt::ALL {
                        push(&mut set, &mut items, f, G::ref_encode(&pt, f).unwrap());
                    }
                }
            }
            let (ox, oy): (N, N) = if G::NAME == "G2" {
                let (x, y) = ref_mul::<G1>(d).xy().map(|(x, y)| (x.0.clone(), y.0.clone())).unwrap();
                (x, y)
            } else {
                let (x, y) = ref_mul::<G2>(d).xy().map(|(x, y)| (x.a.clone(), y.a.clone())).unwrap();
                (x, y)
            };
            let pt = Pt::Aff(G::rf_from_n(&ox), G::rf_from_n(&oy));
            for f in Fmt::ALL {
                push(&mut set, &mut items, f, G::ref_encode(&pt, f).unwrap());
            }
        }
    }
    // both prefixes with the "wrong" parity are valid encodings of -P: included through d and r-d.
    if G::NAME == "G2" {
        // points of the twist outside the subgroup, in every format
        for t in twist_points(tier.pick(6, 24)) {
            for f in Fmt::ALL {
                push(&mut set, &mut items, f, refmodel::g2_raw(&t).map(|raw| match f {
                    Fmt::Raw => raw,
                    Fmt::Uncompressed => refmodel::g2_uncompressed(&t).unwrap(),
                    Fmt::Compressed => refmodel::g2_compressed(&t).unwrap(),
                }).unwrap());
            }
        }
    } else {
        // x-coordinates that carry no point / small x
        for x in 0..tier.pick(40u64, 400) {
            for pf in [2u8, 3] {
                let mut v = vec![pf];
                v.extend(be(&n(x), 32));
                push(&mut set, &mut items, Fmt::Compressed, v);
            }
        }
        // cofactor 1: every curve point is a member. Valid encodings of points chosen by x (tiny x, 256^k, zero bytes
        // inside): coordinates with many leading zero bytes
        for x in crate::grp::c10_g1_xs(Tier::Quick) {
            let y2 = (x.modpow(&n(3), q()) + n(5)) % q();
            if let Some(y) = refmodel::sqrt_mod(&y2, q()) {
                for yy in [y.clone(), (q() - &y) % q()] {
                    let pt = Pt::Aff(G::rf_from_n(&x), G::rf_from_n(&yy));
                    for f in Fmt::ALL {
                        push(&mut set, &mut items, f, G::ref_encode(&pt, f).unwrap());
                    }
                }
            }
        }
    }
    Corpus { items }
}
/// every two-bit flip of the raw and 0x04 encodings of a few points (thorough)
pub fn two_bit_flips<G: GroupApi>(seed: u64) -> Vec<(Fmt, Vec<u8>)> {
    let ds = dlogs(Tier::Quick, seed);
    let mut out = vec![];
    for d in ds.iter().take(2) {
        let p = ref_mul::<G>(d);
        for f in [Fmt::Raw, Fmt::Uncompressed, Fmt::Compressed] {
            let e = G::ref_encode(&p, f).unwrap();
            let nb = e.len() * 8;
            for i in 0..nb {
                for j in (i + 1)..nb {
                    let mut v = e.clone();
                    v[i / 8] ^= 1 << (i % 8);
                    v[j / 8] ^= 1 << (j % 8);
                    out.push((f, v));
                }
            }
        }
    }
    out
}

const C08_CLASSES: [&str; 8] = ["valid", "wrong-length", "wrong-prefix", "coordinate>=q", "off-curve-or-no-point", "on-curve-not-in-subgroup", "len=0", "len>=130"];
fn c08_class<G: GroupApi>(f: Fmt, b: &[u8]) -> u32 {
    let mut c = 0;
    if b.is_empty() {
        c |= 1 << 6;
    }
    if b.len() >= 130 {
        c |= 1 << 7;
    }
    if G::ref_decode(f, b).is_some() {
        return c | 1;
    }
    if b.len() != G::enc_len(f) {
        return c | 2;
    }
    match f {
        Fmt::Uncompressed if b[0] != 4 => return c | 4,
        Fmt::Compressed if b[0] != 2 && b[0] != 3 => return c | 4,
        _ => {}
    }
    if coord_slots::<G>(f, b).map(|cs| cs.iter().any(|x| x >= q())).unwrap_or(false) {
        return c | 8;
    }
    c | 16
}
fn c08_group<G: GroupApi>(run: &Run) {
    let cp = corpus::<G>(run.tier, run.seed);
    let nn = cp.items.len() as u64;
    let req: &[&str] = &["valid", "wrong-length", "wrong-prefix", "coordinate>=q", "off-curve-or-no-point", "len=0", "len>=130"];
    run.grid(
        Spec { name: &format!("c08.{}.decode", G::NAME), n: nn, classes: &C08_CLASSES, required: req },
        |i| {
            let (f, b) = &cp.items[i as usize];
            let k = decode_case::<G>(*f, b)?;
            Ok(Tally::new(k, !b.is_empty(), c08_class::<G>(*f, b)))
        },
        |i| {
            let (f, b) = &cp.items[i as usize];
            json!({"op": "c08.decode", "group": G::NAME, "fmt": f.name(), "bytes": jb(b)})
        },
    );
    if run.tier == Tier::Thorough {
        let tb = two_bit_flips::<G>(run.seed);
        let nt = tb.len() as u64;
        run.grid(
            Spec { name: &format!("c08.{}.every-two-bit-flip", G::NAME), n: nt, classes: &[], required: &[] },
            |i| {
                let (f, b) = &tb[i as usize];
                Ok(Tally::new(decode_case::<G>(*f, b)?, true, 0))
            },
            |i| {
                let (f, b) = &tb[i as usize];
                json!({"op": "c08.decode", "group": G::NAME, "fmt": f.name(), "bytes": jb(b)})
            },
        );
    }
}
pub fn c08_run(run: &Run) {
    c08_group::<G1>(run);
    c08_group::<G2>(run);
    // Fq2::from_slice: every length, boundary coordinates
    let mut bs: Vec<Vec<u8>> = vec![];
    for len in 0..=140usize {
        bs.push(vec![0u8; len]);
        bs.push(vec![0xFF; len]);
    }
    let vals = [N::zero(), N::one(), q() - n(1), q().clone(), q() + n(1), two(256) - n(1), two(255)];
    for a in &vals {
        for b in &vals {
            let mut v = be(a, 32);
            v.extend(be(b, 32));
            bs.push(v);
        }
    }
    let mut seen = HashSet::new();
    bs.retain(|b| seen.insert(b.clone()));
    run.grid(
        Spec { name: "c08.Fq2.from_slice", n: bs.len() as u64, classes: &["valid", "invalid"], required: &["valid", "invalid"] },
        |i| {
            let b = &bs[i as usize];
            let k = fq2_case(b)?;
            Ok(Tally::new(k, true, if k == 2 { 1 } else { 2 }))
        },
        |i| json!({"op": "c08.fq2", "bytes": jb(&bs[i as usize])}),
    );
    // the same exploration in the debug-assertion + overflow-check profile
    crate::run_child_profile(run, "C08");
}
pub fn c08_meta(run: &Run) -> Meta {
    Meta {
        rule: "grid: six decoders + Fq2::from_slice on the BYTES alphabet built from the valid encodings of d*G: every length 0..=140 \
               (constant patterns, truncations, 00/FF extensions), all 256 values of byte 0, every single-bit flip, coordinate substitutions \
               (q, q+1, c+q, 2^256-1, 0, 1, q-1), off-by-one lengths, cross-format confusion (every encoding of every format of both groups \
               into every decoder), twist points outside G2, x carrying no point; thorough adds +-1 on every byte and EVERY two-bit flip \
               of the encodings of two points. Oracle: the reference decoder (exact length and prefix, coordinates < q, curve equation, \
               r*P = O for G2); Ok(P) must denote the reference point and re-encode to the input. The whole corpus is executed in the \
               release build and again in the dbg build (debug assertions + overflow checks); byte strings are de-duplicated."
            .into(),
        engine: "sm9mc-grid (release + dbg child process)".into(),
        bounds: json!({"max_len": 140, "two_bit_flips": run.tier == Tier::Thorough}),
        assumptions: vec!["which Err variant is returned is not constrained".into()],
    }
}

// ---------------------------------------------------------------------------------------------
// C09
// ---------------------------------------------------------------------------------------------
/// one candidate (x, y) for G1 through AffineG1::new and the raw decoders
pub fn c09_g1_case(x: &N, y: &N) -> Result<u32, Bad> {
    let p = Pt::Aff(RFq(x.clone()), RFq(y.clone()));
    let want = on_curve(&p, &refmodel::b1());
    let got = lib("AffineG1::new", || <G1 as GroupApi>::affine_new(&RFq(x.clone()), &RFq(y.clone())))?;
    ensure!(got.is_ok() == want, if want { "rejects-member" } else { "accepts-non-member" }, "AffineG1::new({:x}, {:x}) is_ok={} but y^2 == x^3+5 is {}", x, y, got.is_ok(), want);
    if let Ok(g) = got {
        ensure!(alpha::<G1>(&g) == p, "wrong-point", "AffineG1::new({:x}, {:x}) denotes another point", x, y);
    }
    Ok(1)
}
/// one candidate (x, y) for G2 through AffineG2::new and all three decoders
pub fn c09_g2_case(x: &F2, y: &F2) -> Result<u32, Bad> {
    let p = Pt::Aff(x.clone(), y.clone());
    let oc = on_curve(&p, &refmodel::b2());
    let want = oc && ec_mul(&p, r()).is_inf();
    let got = lib("AffineG2::new", || <G2 as GroupApi>::affine_new(x, y))?;
    let cls = if want {
        "rejects-member"
    } else if oc {
        "accepts-point-outside-subgroup"
    } else {
        "accepts-non-member"
    };
    ensure!(got.is_ok() == want, cls, "AffineG2::new({}, {}) is_ok={} but on-curve={} in-subgroup={}", crate::api::jf2(x), crate::api::jf2(y), got.is_ok(), oc, want);
    if let Ok(g) = got {
        ensure!(alpha::<G2>(&g) == p, "wrong-point", "AffineG2::new denotes another point for ({}, {})", crate::api::jf2(x), crate::api::jf2(y));
    }
    // every G2 decoder accepts exactly the members (which point an accepted input denotes is C08/C10's business)
    let raw = refmodel::g2_raw(&p).unwrap();
    decode_case_opt::<G2>(Fmt::Raw, &raw, false)?;
    decode_case_opt::<G2>(Fmt::Uncompressed, &refmodel::g2_uncompressed(&p).unwrap(), false)?;
    // the compressed form drops y: the decoder must accept exactly when SOME point with this x is in G2
    let mut cb = vec![if y.a.bit(0) { 3u8 } else { 2u8 }];
    cb.extend(refmodel::f2_bytes(x));
    decode_case_opt::<G2>(Fmt::Compressed, &cb, false)?;
    Ok(4)
}
pub fn c09_run(run: &Run) {
    let c = consts();
    let p = q();
    // ---- G1 candidates
    let mut g1c: Vec<(N, N, &'static str)> = vec![];
    let ds = dlogs(run.tier, run.seed);
    for d in &ds {
        if let Pt::Aff(x, y) = ref_mul::<G1>(d) {
            g1c.push((x.0.clone(), y.0.clone(), "subgroup"));
            g1c.push((x.0.clone(), (&y.0 + n(1)) % p, "y+1"));
            g1c.push(((&x.0 + n(1)) % p, y.0.clone(), "x+1"));
            g1c.push((y.0.clone(), x.0.clone(), "swapped"));
        }
        if let Pt::Aff(x, y) = ref_mul::<G2>(d) {
            g1c.push((x.a.clone(), y.a.clone(), "real parts of a G2 point"));
        }
    }
    for b in [4u64, 6, 0, 3] {
        // points of the curves y^2 = x^3 + b, b != 5
        let mut x = n(1);
        loop {
            let y2 = (x.modpow(&n(3), p) + n(b)) % p;
            if let Some(y) = refmodel::sqrt_mod(&y2, p) {
                g1c.push((x.clone(), y, "point of another curve"));
                break;
            }
            x += n(1);
        }
    }
    for x in 0..run.tier.pick(64u64, 8192) {
        let y2 = (n(x).modpow(&n(3), p) + n(5)) % p;
        match refmodel::sqrt_mod(&y2, p) {
            Some(y) => {
                g1c.push((n(x), y.clone(), "small x"));
                g1c.push((n(x), (y + n(1)) % p, "small x, y+1"));
            }
            None => g1c.push((n(x), n(1), "small x without a point")),
        }
    }
    g1c.push((N::zero(), N::zero(), "(0,0)"));
    let ng = g1c.len() as u64;
    run.grid(
        Spec { name: "c09.G1", n: ng, classes: &["on-curve", "off-curve"], required: &["on-curve", "off-curve"] },
        |i| {
            let (x, y, _) = &g1c[i as usize];
            let k = c09_g1_case(x, y)?;
            let oc = on_curve(&Pt::Aff(RFq(x.clone()), RFq(y.clone())), &refmodel::b1());
            Ok(Tally::new(k, true, if oc { 1 } else { 2 }))
        },
        |i| {
            let (x, y, w) = &g1c[i as usize];
            json!({"op": "c09.g1", "x": mccore::jn(x), "y": mccore::jn(y), "what": w})
        },
    );
    // ---- G2 candidates
    let mut g2c: Vec<(F2, F2, String)> = vec![];
    for d in &ds {
        if let Pt::Aff(x, y) = ref_mul::<G2>(d) {
            g2c.push((x.clone(), y.clone(), "subgroup".into()));
            g2c.push((x.clone(), y.add(&F2::one()), "y+1".into()));
            g2c.push((x.add(&F2::one()), y.clone(), "x+1".into()));
            g2c.push((x.conj(), y.conj(), "conjugate".into()));
        }
        if let Pt::Aff(x, y) = ref_mul::<G1>(d) {
            g2c.push((F2 { a: x.0.clone(), b: N::zero() }, F2 { a: y.0.clone(), b: N::zero() }, "point of E(Fq) pushed into G2".into()));
        }
    }
    for (ba, bb) in [(0u64, 4u64), (0, 6), (5, 0), (5, 5)] {
        // points of y^2 = x^3 + (ba + bb u) with the wrong b
        let bw = F2 { a: n(ba), b: n(bb) };
        let mut x = F2 { a: n(1), b: n(1) };
        loop {
            if let Some(y) = x.sq().mul(&x).add(&bw).sqrt() {
                g2c.push((x.clone(), y, "point of another curve".into()));
                break;
            }
            x = x.add(&F2::one());
        }
    }
    // the origin and its neighbours ((0,0) is the "point at infinity" of other libraries' encodings; it is on no curve here)
    for (x, y, w) in [
        (F2::zero(), F2::zero(), "(0,0)"),
        (F2::zero(), F2::one(), "(0,1)"),
        (F2::one(), F2::zero(), "(1,0)"),
        (F2 { a: N::zero(), b: n(1) }, F2::zero(), "(u,0)"),
        (F2::zero(), F2 { a: N::zero(), b: n(1) }, "(0,u)"),
    ] {
        g2c.push((x, y, w.into()));
    }
    if let Some(y) = refmodel::b2().sqrt() {
        g2c.push((F2::zero(), y, "(0, sqrt(b))".into()));
    }
    let h = &c.twist_cof;
    let tw = twist_points(run.tier.pick(4, 128));
    let smalls = ds.iter().take(3).map(|d| ref_mul::<G2>(d)).collect::<Vec<_>>();
    // (the candidates of one twist point are independent of the others: built in parallel, kept in order)
    use rayon::prelude::*;
    let per_tw: Vec<(Vec<(F2, F2, String)>, usize)> = tw
        .par_iter()
        .enumerate()
        .map(|(i, t)| {
            let mut out: Vec<(F2, F2, String)> = vec![];
            let mut n_small = 0usize;
            // the construction is self-checking: the twist has order r*(2q-r)
            assert!(ec_mul(t, &c.twist_order).is_inf(), "twist order");
            let mut add = |pt: Pt<F2>, what: String| {
                if let Pt::Aff(x, y) = pt {
                    out.push((x, y, what));
                }
            };
            add(t.clone(), format!("twist point #{}", i));
            add(ec_mul(t, h), format!("cofactor-cleared twist point #{}", i));
            for (f, nm) in [(13u64, "13"), (1621, "1621"), (13 * 1621, "13*1621")] {
                let k = &c.twist_order / n(f);
                let sp = ec_mul(t, &k);
                if !sp.is_inf() {
                    n_small += 1;
                    for s in &smalls {
                        add(ec_add(s, &sp), format!("subgroup point + point of order dividing {} (#{})", nm, i));
                    }
                }
                add(sp, format!("point of order dividing {} from twist point #{}", nm, i));
            }
            add(ec_mul(t, r()), format!("r * twist point #{} (order divides the cofactor)", i));
            (out, n_small)
        })
        .collect();
    let mut n_small_order = 0;
    for (v, k) in per_tw {
        g2c.extend(v);
        n_small_order += k;
    }
    run.note("c09_small_order_points", json!(n_small_order));
    let n2 = g2c.len() as u64;
    run.grid(
        Spec {
            name: "c09.G2",
            n: n2,
            classes: &["in-subgroup", "on-twist-outside-subgroup", "off-curve"],
            required: &["in-subgroup", "on-twist-outside-subgroup", "off-curve"],
        },
        |i| {
            let (x, y, _) = &g2c[i as usize];
            let k = c09_g2_case(x, y)?;
            let pt = Pt::Aff(x.clone(), y.clone());
            let cl = if !on_curve(&pt, &refmodel::b2()) {
                4
            } else if in_g2(&pt) {
                1
            } else {
                2
            };
            Ok(Tally::new(k, true, cl))
        },
        |i| {
            let (x, y, w) = &g2c[i as usize];
            json!({"op": "c09.g2", "x": crate::api::jf2(x), "y": crate::api::jf2(y), "what": w})
        },
    );
    c09_call_order(run);
}
/// one validating call on the G2 candidate (x, y) through entry point ep (0 AffineG2::new, 1 raw, 2 0x04, 3 compressed):
/// Ok(()) iff the library's accept / reject answer is the reference's
pub fn c09_validate_once(ep: u64, x: &F2, y: &F2) -> Result<(), Bad> {
    let want = c09_ref_accepts(ep, x, y);
    c09_compare(ep, x, y, want)
}
fn c09_bytes(ep: u64, x: &F2, y: &F2) -> (Fmt, Vec<u8>) {
    let p = Pt::Aff(x.clone(), y.clone());
    match ep {
        1 => (Fmt::Raw, refmodel::g2_raw(&p).unwrap()),
        2 => (Fmt::Uncompressed, refmodel::g2_uncompressed(&p).unwrap()),
        _ => {
            let mut cb = vec![if y.a.bit(0) { 3u8 } else { 2u8 }];
            cb.extend(refmodel::f2_bytes(x));
            (Fmt::Compressed, cb)
        }
    }
}
/// the reference's answer (accept?) for one validating call
pub fn c09_ref_accepts(ep: u64, x: &F2, y: &F2) -> bool {
    if ep == 0 {
        let p = Pt::Aff(x.clone(), y.clone());
        on_curve(&p, &refmodel::b2()) && in_g2(&p)
    } else {
        let (f, b) = c09_bytes(ep, x, y);
        <G2 as GroupApi>::ref_decode(f, &b).is_some()
    }
}
/// the library's answer compared with `want`
pub fn c09_compare(ep: u64, x: &F2, y: &F2, want: bool) -> Result<(), Bad> {
    let (name, got) = if ep == 0 {
        ("AffineG2::new".to_string(), lib("AffineG2::new", || <G2 as GroupApi>::affine_new(x, y))?.is_ok())
    } else {
        let (f, b) = c09_bytes(ep, x, y);
        (format!("G2 {} decoder", f.name()), lib("decode", || <G2 as GroupApi>::decode(f, &b))?.is_ok())
    };
    ensure!(got == want, if want { "rejects-member" } else { "accepts-non-member" }, "{} on ({}, {}): accepted={} , reference: {}", name, crate::api::jf2(x), crate::api::jf2(y), got, want);
    Ok(())
}
/// hidden state across validations: every ordered pair of validating calls (entry point, candidate) executed back
/// to back on ONE thread with nothing else running; each answer must be the reference's whatever came before
/// (a memo of "the last point seen" that also remembers rejected points would accept them the second time)
pub fn c09_call_order(run: &Run) {
    let t0 = std::time::Instant::now();
    let c = consts();
    let s1 = ref_mul::<G2>(&n(1));
    let tw = twist_points(1).pop().unwrap();
    let small = ec_mul(&tw, &(&c.twist_order / n(13)));
    let mut cands: Vec<(F2, F2, &'static str)> = vec![];
    let mut add = |p: Pt<F2>, w: &'static str| {
        if let Pt::Aff(x, y) = p {
            cands.push((x, y, w));
        }
    };
    add(s1.clone(), "subgroup point");
    add(ref_mul::<G2>(&(r() - n(1))), "its negative");
    add(tw.clone(), "twist point outside the subgroup");
    add(small.clone(), "point of order dividing 13");
    add(ec_add(&s1, &small), "subgroup point + small-order point");
    if let Pt::Aff(x, y) = &s1 {
        cands.push((x.clone(), y.add(&F2::one()), "off-curve (y+1)"));
    }
    let calls: Vec<(u64, usize)> = (0..4u64).flat_map(|ep| (0..cands.len()).map(move |i| (ep, i))).collect();
    // the reference's answers are computed once per call; the sequences only run the library
    let wants: Vec<bool> = calls.iter().map(|(ep, i)| c09_ref_accepts(*ep, &cands[*i].0, &cands[*i].1)).collect();
    let mut n_seq = 0u64;
    'outer: for (a, first) in calls.iter().enumerate() {
        for (b, second) in calls.iter().enumerate() {
            let _ = c09_compare(first.0, &cands[first.1].0, &cands[first.1].1, wants[a]);
            let res = c09_compare(second.0, &cands[second.1].0, &cands[second.1].1, wants[b]);
            n_seq += 1;
            if let Err(mut e) = res {
                e.class = format!("call-order:{}", e.class);
                e.msg = format!("after validating the {} through entry point {}: [{}] {}", cands[first.1].2, first.0, cands[second.1].2, e.msg);
                let (f, s2) = (*first, *second);
                run.record_fail("c09.call-order", (a * calls.len() + b) as u64, e, || {
                    json!({"op": "c09.callorder",
                           "first": {"ep": f.0, "x": crate::api::jf2(&cands[f.1].0), "y": crate::api::jf2(&cands[f.1].1)},
                           "second": {"ep": s2.0, "x": crate::api::jf2(&cands[s2.1].0), "y": crate::api::jf2(&cands[s2.1].1)}})
                });
                if run.fail_count() > 20 {
                    break 'outer;
                }
            }
        }
    }
    // and each call as the FIRST validation of a fresh process (process-wide state in its initial condition)
    let mut n_fresh = 0u64;
    for (a, call) in calls.iter().enumerate() {
        let case = json!({"op": "c09.first", "ep": call.0, "x": crate::api::jf2(&cands[call.1].0), "y": crate::api::jf2(&cands[call.1].1)});
        n_fresh += 1;
        if let Err(mut e) = crate::outcome_fresh(&case) {
            e.class = format!("fresh-process:{}", e.class);
            e.msg = format!("[{}] {}", cands[call.1].2, e.msg);
            let cc = case.clone();
            run.record_fail("c09.call-order", (calls.len() * calls.len() + a) as u64, e, || json!({"op": "c09.fresh", "inner": cc}));
        }
    }
    n_seq += n_fresh;
    run.add_counts(n_seq, n_seq * 2, n_seq);
    run.add_driver_summary(json!({"driver": "c09.call-order", "first_call_of_a_fresh_process": n_fresh, "engine": "sequential grid (one thread, nothing else running)", "calls": calls.len(),
        "ordered_pairs_of_calls": n_seq - n_fresh, "wall_s": t0.elapsed().as_secs_f64()}));
    eprintln!("[C09] c09.call-order               cases={:<10} transitions={:<11} {:.1}s", n_seq, n_seq * 2, t0.elapsed().as_secs_f64());
}
pub fn c09_callorder_replay(c: &Value) -> Result<(), Bad> {
    let g = |v: &Value| (v["ep"].as_u64().unwrap_or(0), crate::api::gf2(&v["x"]), crate::api::gf2(&v["y"]));
    let (e1, x1, y1) = g(&c["first"]);
    let (e2, x2, y2) = g(&c["second"]);
    let _ = c09_validate_once(e1, &x1, &y1);
    c09_validate_once(e2, &x2, &y2)
}
pub fn c09_meta(run: &Run) -> Meta {
    Meta {
        rule: "grid: candidate coordinates (x,y) through AffineG1::new / AffineG2::new and every decoder: subgroup points, near misses \
               (y+1, x+1, swapped, conjugate, points of curves with another b, points of E pushed into G2 and vice versa, every small x), \
               and for G2 the first twist points of a fixed enumeration, their cofactor-cleared multiples (accepted), their multiples of \
               order dividing 13, 1621, 13*1621, r*T, and subgroup point + small-order point. Oracle: curve equation and r*P = O with the \
               reference's big-scalar multiplication; the twist order r(2q-r) is asserted on every twist point. Hidden state: every ordered \
               pair of validating calls (4 entry points x 6 candidates) back to back on one thread."
            .into(),
        engine: "sm9mc-grid".into(),
        bounds: json!({"twist_points": run.tier.pick(4, 128), "every_small_x_below": run.tier.pick(64, 8192)}),
        assumptions: vec![],
    }
}

pub fn replay(c: &Value) -> Result<(), Bad> {
    match gs(c, "op").as_str() {
        "c08.decode" => {
            let f = fmt_of(&gs(c, "fmt"));
            let b = gb(c, "bytes");
            if gs(c, "group") == "G1" { decode_case::<G1>(f, &b) } else { decode_case::<G2>(f, &b) }.map(|_| ())
        }
        "c08.fq2" => fq2_case(&gb(c, "bytes")).map(|_| ()),
        "c09.g1" => c09_g1_case(&mccore::gn(c, "x"), &mccore::gn(c, "y")).map(|_| ()),
        "c09.callorder" => c09_callorder_replay(c),
        "c09.first" => c09_validate_once(c["ep"].as_u64().unwrap_or(0), &crate::api::gf2(&c["x"]), &crate::api::gf2(&c["y"])),
        "c09.fresh" => crate::outcome_fresh(&c["inner"]),
        "c09.g2" => c09_g2_case(&crate::api::gf2(&c["x"]), &crate::api::gf2(&c["y"])).map(|_| ()),
        o => panic!("unknown op {}", o),
    }
}

//! C06 — Fq and Fr arithmetic is exact integer arithmetic modulo q and r.

use crate::api::lib;
use crate::fp::{lift, FpApi};
use mccore::alpha::{fp_alpha, fp_small, rmont, two};
use mccore::{ensure, gn, gs, jn, Bad, Meta, Run, Spec, Tally, Tier};
use num_traits::{One, Zero};
use refmodel::{addm, be32, invm, mulm, n, negm, subm, N};
use serde_json::{json, Value};
use sm9_core::{Fq, Fr};

fn chk<F: FpApi>(what: &str, got: &F, want: &N, a: &N, b: &N) -> Result<(), Bad> {
    let gb = got.bytes();
    ensure!(
        gb == be32(want),
        "wrong-value",
        "{} {}: a={:x} b={:x} library={} model={:x}",
        F::NAME,
        what,
        a,
        b,
        refmodel::hex(&gb),
        want
    );
    Ok(())
}

/// the three operators by value on one ordered pair
pub fn pair_case<F: FpApi>(la: F, lb: F, a: &N, b: &N) -> Result<(), Bad> {
    let p = F::modulus();
    let s = lib("add", || la + lb)?;
    chk::<F>("a+b", &s, &addm(a, b, p), a, b)?;
    let d = lib("sub", || la - lb)?;
    chk::<F>("a-b", &d, &subm(a, b, p), a, b)?;
    let m = lib("mul", || la * lb)?;
    chk::<F>("a*b", &m, &mulm(a, b, p), a, b)?;
    // == is value equality
    let eq = lib("eq", || la == lb)?;
    ensure!(eq == (a == b), "eq", "{} (a==b) = {} but a={:x} b={:x}", F::NAME, eq, a, b);
    Ok(())
}
pub fn forms_case<F: FpApi>(la: F, lb: F, a: &N, b: &N) -> Result<u32, Bad> {
    let p = F::modulus();
    let mut k = 0;
    for (op, want) in [('+', addm(a, b, p)), ('-', subm(a, b, p)), ('*', mulm(a, b, p))] {
        let forms = lib("operator forms", || F::forms(la, lb, op))?;
        for (name, got) in forms {
            chk::<F>(&format!("[{}] with op '{}'", name, op), &got, &want, a, b)?;
            k += 1;
        }
    }
    Ok(k)
}
pub fn unary_case<F: FpApi>(la: F, a: &N) -> Result<u32, Bad> {
    let p = F::modulus();
    let z = N::zero();
    let ng = lib("neg", || -la)?;
    chk::<F>("-a", &ng, &negm(a, p), a, &z)?;
    let ng2 = lib("neg by reference", || la.neg_ref())?;
    chk::<F>("-&a", &ng2, &negm(a, p), a, &z)?;
    let iz = lib("is_zero", || la.is_zero_())?;
    ensure!(iz == a.is_zero(), "is_zero", "{} is_zero({:x}) = {}", F::NAME, a, iz);
    let bytes = lib("to_slice", || la.bytes())?;
    ensure!(bytes == be32(a), "encoding", "{} to_slice of {:x} is {}", F::NAME, a, refmodel::hex(&bytes));
    let ib = lib("into [u8;32]", || la.into_bytes_())?;
    ensure!(ib == bytes, "encoding", "{} Into<[u8;32]> differs from to_slice for {:x}", F::NAME, a);
    let inv = lib("inverse", || la.inv())?;
    match (inv, invm(a, p)) {
        (None, None) => {}
        (Some(g), Some(w)) => {
            chk::<F>("inverse", &g, &w, a, &z)?;
            let back = lib("mul", || g * la)?;
            chk::<F>("inverse(a)*a", &back, &N::one(), a, &z)?;
        }
        (g, w) => {
            return mccore::bad(
                "inverse-none",
                format!("{} inverse({:x}): library is_some={} model is_some={}", F::NAME, a, g.is_some(), w.is_some()),
            )
        }
    }
    if let Some(ev) = lib("is_even", || la.is_even_())? {
        ensure!(ev == !a.bit(0), "parity", "{} is_even({:x}) = {}", F::NAME, a, ev);
    }
    // a*a through the multiplication and a^2 through pow (the separate squaring routine)
    let sq = lib("mul", || la * la)?;
    chk::<F>("a*a", &sq, &mulm(a, a, p), a, a)?;
    let two_ = F::from_n(&n(2));
    let sq2 = lib("pow", || la.pow_(&two_))?;
    chk::<F>("a^2", &sq2, &mulm(a, a, p), a, &n(2))?;
    // reflexive equality, canonical round trip
    let back = lib("from_slice", || F::from_slice_(&bytes))?;
    ensure!(back == Some(la), "roundtrip", "{} from_slice(to_slice(a)) != a for {:x}", F::NAME, a);
    Ok(10)
}
pub fn pow_case<F: FpApi>(la: F, a: &N, e: &N) -> Result<(), Bad> {
    let p = F::modulus();
    let le = F::from_n(e);
    let g = lib("pow", || la.pow_(&le))?;
    chk::<F>("a^e", &g, &a.modpow(e, p), a, e)
}

const PAIR_CLASSES: [&str; 12] = [
    "add:raw-carry-out-of-2^256",
    "add:raw-sum==p",
    "add:raw-sum==2^256",
    "add:p<=raw-sum<2^256",
    "add:raw-sum<p",
    "sub:borrow",
    "sub:equal-operands",
    "zero-operand",
    "mul:final-carry",
    "mul:subtract-no-carry",
    "mul:no-subtract",
    "mul:result==0",
];
fn pair_classes(p: &N, pinv_neg: &N, ra: &N, rb: &N) -> u32 {
    let mut c = 0u32;
    let s = ra + rb;
    let t256 = two(256);
    if s > t256 {
        c |= 1 << 0;
    }
    if &s == p {
        c |= 1 << 1;
    }
    if s == t256 {
        c |= 1 << 2;
    }
    if &s >= p && s < t256 {
        c |= 1 << 3;
    }
    if &s < p {
        c |= 1 << 4;
    }
    if ra < rb {
        c |= 1 << 5;
    }
    if ra == rb {
        c |= 1 << 6;
    }
    if ra.is_zero() || rb.is_zero() {
        c |= 1 << 7;
    }
    // Montgomery product before the conditional subtraction: t = (ra*rb + m*p) / 2^256,
    // m = -ra*rb*p^-1 mod 2^256
    let prod = ra * rb;
    let m = (&prod * pinv_neg) % &t256;
    let t = (&prod + &m * p) >> 256;
    if t >= t256 {
        c |= 1 << 8;
    } else if &t >= p {
        c |= 1 << 9;
    } else {
        c |= 1 << 10;
    }
    let tm: N = &t % p;
    if tm.is_zero() {
        c |= 1 << 11;
    }
    c
}

fn field<F: FpApi>(run: &Run) {
    let p = F::modulus().clone();
    let al = fp_alpha(&p, run.tier, run.seed);
    let vals = &al.all;
    let libv: Vec<F> = lift::<F>(vals);
    let rm = rmont(&p);
    let raws: Vec<N> = vals.iter().map(|a| mulm(a, &rm, &p)).collect();
    let t256 = two(256);
    // -p^-1 mod 2^256
    let pinv = p.modpow(&(two(255) - n(1)), &t256); // p odd: p^(2^255-1) = p^-1 mod 2^256 (order divides 2^254)
    assert!(((&pinv * &p) % &t256).is_one());
    let pinv_neg = &t256 - &pinv;
    let nn = vals.len() as u64;
    run.note(
        &format!("alphabet_{}", F::NAME),
        json!({"size": nn, "canon_limb_patterns": al.n_canon, "raw_limb_patterns": al.n_raw, "special": al.n_special,
               "paired": al.n_paired, "generic": al.n_generic}),
    );
    let name = format!("c06.{}.pair", F::NAME);
    let with_classes = run.tier == Tier::Quick || nn <= 4000;
    run.grid(
        Spec {
            name: &name,
            n: nn * nn,
            classes: &PAIR_CLASSES,
            required: if with_classes {
                &[
                    "add:raw-carry-out-of-2^256",
                    "add:raw-sum==p",
                    "add:raw-sum==2^256",
                    "add:p<=raw-sum<2^256",
                    "add:raw-sum<p",
                    "sub:borrow",
                    "sub:equal-operands",
                    "zero-operand",
                    "mul:final-carry",
                    "mul:subtract-no-carry",
                    "mul:no-subtract",
                ]
            } else {
                &[]
            },
        },
        |i| {
            let (ia, ib) = ((i / nn) as usize, (i % nn) as usize);
            pair_case::<F>(libv[ia], libv[ib], &vals[ia], &vals[ib])?;
            let cls = if with_classes { pair_classes(&p, &pinv_neg, &raws[ia], &raws[ib]) } else { 0 };
            let trivial = vals[ia] <= n(1) && vals[ib] <= n(1);
            Ok(Tally::new(4, !trivial, cls))
        },
        |i| {
            let (ia, ib) = ((i / nn) as usize, (i % nn) as usize);
            json!({"op": "c06.pair", "field": F::NAME, "a": jn(&vals[ia]), "b": jn(&vals[ib])})
        },
    );
    // thorough: the class histogram on the quick-sized sub-grid (so that it is still measured)
    if !with_classes {
        let sub = fp_alpha(&p, Tier::Quick, run.seed);
        let sv = &sub.all;
        let sl: Vec<F> = lift::<F>(sv);
        let sr: Vec<N> = sv.iter().map(|a| mulm(a, &rm, &p)).collect();
        let sn = sv.len() as u64;
        run.grid(
            Spec {
                name: &format!("c06.{}.pair-classes", F::NAME),
                n: sn * sn,
                classes: &PAIR_CLASSES,
                required: &PAIR_CLASSES[..11],
            },
            |i| {
                let (ia, ib) = ((i / sn) as usize, (i % sn) as usize);
                pair_case::<F>(sl[ia], sl[ib], &sv[ia], &sv[ib])?;
                Ok(Tally::new(4, true, pair_classes(&p, &pinv_neg, &sr[ia], &sr[ib])))
            },
            |i| {
                let (ia, ib) = ((i / sn) as usize, (i % sn) as usize);
                json!({"op": "c06.pair", "field": F::NAME, "a": jn(&sv[ia]), "b": jn(&sv[ib])})
            },
        );
    }
    // operator forms on a 64^2 (quick) / 160^2 (thorough) sub-grid with every special member
    let fsub: Vec<N> = {
        let mut v = mccore::alpha::special(&p);
        v.extend(fp_small(&p, run.tier.pick(24, 96), run.seed));
        mccore::alpha::dedup(v)
    };
    let fl: Vec<F> = lift::<F>(&fsub);
    let fnn = fsub.len() as u64;
    run.grid(
        Spec { name: &format!("c06.{}.forms", F::NAME), n: fnn * fnn, classes: &[], required: &[] },
        |i| {
            let (ia, ib) = ((i / fnn) as usize, (i % fnn) as usize);
            let k = forms_case::<F>(fl[ia], fl[ib], &fsub[ia], &fsub[ib])?;
            Ok(Tally::new(k, true, 0))
        },
        |i| {
            let (ia, ib) = ((i / fnn) as usize, (i % fnn) as usize);
            json!({"op": "c06.forms", "field": F::NAME, "a": jn(&fsub[ia]), "b": jn(&fsub[ib])})
        },
    );
    // unary
    run.grid(
        Spec { name: &format!("c06.{}.unary", F::NAME), n: nn, classes: &[], required: &[] },
        |i| {
            let k = unary_case::<F>(libv[i as usize], &vals[i as usize])?;
            Ok(Tally::new(k, vals[i as usize] > n(1), 0))
        },
        |i| json!({"op": "c06.unary", "field": F::NAME, "a": jn(&vals[i as usize])}),
    );
    // pow: all a x designated exponents
    let mut exps: Vec<N> = vec![
        n(0),
        n(1),
        n(2),
        n(3),
        n(4),
        &p - n(1),
        &p - n(2),
        (&p - n(1)) / n(2),
        (&p - n(1)) / n(4),
        two(255) % &p,
        rm.clone(),
        two(64),
        two(64) - n(1),
    ];
    exps.extend(mccore::alpha::generic(&p, run.seed, 0xe4b, run.tier.pick(2, 6)));
    let exps = mccore::alpha::dedup(exps);
    let ne = exps.len() as u64;
    let pw_vals: Vec<usize> = if run.tier == Tier::Quick { (0..vals.len()).collect() } else { (0..vals.len()).collect() };
    let npw = pw_vals.len() as u64;
    run.grid(
        Spec { name: &format!("c06.{}.pow", F::NAME), n: npw * ne, classes: &[], required: &[] },
        |i| {
            let (ia, ie) = (pw_vals[(i / ne) as usize], (i % ne) as usize);
            pow_case::<F>(libv[ia], &vals[ia], &exps[ie])?;
            Ok(Tally::new(1, vals[ia] > n(1) && exps[ie] > n(1), 0))
        },
        |i| {
            let (ia, ie) = (pw_vals[(i / ne) as usize], (i % ne) as usize);
            json!({"op": "c06.pow", "field": F::NAME, "a": jn(&vals[ia]), "e": jn(&exps[ie])})
        },
    );
    // small-scope complete: every exponent 0..=255 (4095) on a 16-element sub-alphabet
    let small = fp_small(&p, 16, run.seed);
    let sl: Vec<F> = lift::<F>(&small);
    let emax: u64 = run.tier.pick(256, 4096);
    run.grid(
        Spec { name: &format!("c06.{}.pow-every-small-exponent", F::NAME), n: 16 * emax, classes: &[], required: &[] },
        |i| {
            let (ia, e) = ((i / emax) as usize, i % emax);
            pow_case::<F>(sl[ia], &small[ia], &n(e))?;
            Ok(Tally::new(1, e > 1 && small[ia] > n(1), 0))
        },
        |i| {
            let (ia, e) = ((i / emax) as usize, i % emax);
            json!({"op": "c06.pow", "field": F::NAME, "a": jn(&small[ia]), "e": jn(&n(e))})
        },
    );
}

pub fn run(run: &Run) {
    field::<Fq>(run);
    field::<Fr>(run);
}
pub fn meta(run: &Run) -> Meta {
    Meta {
        rule: "grid: every ordered pair (a,b) over the FP(p) alphabet (canonical limb patterns, Montgomery-targeted \
               limb patterns, special values, paired partners, seeded generic members; de-duplicated by value) for \
               + - * ==, every operator form on a sub-grid, every unary operation on every element, a^e on \
               (all a) x (designated exponents) and on 16 elements x EVERY exponent below the bound; a case is \
               non-trivial unless all operands are in {0,1}; cases are distinct because the alphabets are de-duplicated"
            .into(),
        engine: "sm9mc-grid".into(),
        bounds: json!({"limb_values_per_limb": run.tier.pick(5, 10), "pow_every_exponent_below": run.tier.pick(256, 4096)}),
        assumptions: vec![],
    }
}

fn replay_f<F: FpApi>(c: &Value) -> Result<(), Bad> {
    let p = F::modulus();
    let a = gn(c, "a") % p;
    let la = F::from_n(&a);
    match gs(c, "op").as_str() {
        "c06.pair" => {
            let b = gn(c, "b") % p;
            pair_case::<F>(la, F::from_n(&b), &a, &b)
        }
        "c06.forms" => {
            let b = gn(c, "b") % p;
            forms_case::<F>(la, F::from_n(&b), &a, &b).map(|_| ())
        }
        "c06.unary" => unary_case::<F>(la, &a).map(|_| ()),
        "c06.pow" => pow_case::<F>(la, &a, &(gn(c, "e") % p)),
        o => panic!("unknown op {}", o),
    }
}
pub fn replay(c: &Value) -> Result<(), Bad> {
    match gs(c, "field").as_str() {
        "Fq" => replay_f::<Fq>(c),
        "Fr" => replay_f::<Fr>(c),
        o => panic!("unknown field {}", o),
    }
}

//! One interface over the two public prime fields Fq and Fr.

use num_traits::Zero;
use refmodel::{be32, from_be, N};
use sm9_core::{Fq, Fr};
use std::str::FromStr;

pub trait FpApi:
    Copy
    + PartialEq
    + std::fmt::Debug
    + Send
    + Sync
    + 'static
    + core::ops::Add<Output = Self>
    + core::ops::Sub<Output = Self>
    + core::ops::Mul<Output = Self>
    + core::ops::Neg<Output = Self>
{
    /// -&a (negation by reference)
    fn neg_ref(&self) -> Self;
    const NAME: &'static str;
    fn modulus() -> &'static N;
    /// from a canonical value < p, through the 32-byte constructor
    fn from_n(x: &N) -> Self {
        debug_assert!(x < Self::modulus());
        Self::from_slice_(&be32(x)).expect("32-byte slice is accepted")
    }
    fn val(&self) -> N {
        from_be(&self.bytes())
    }
    fn bytes(&self) -> [u8; 32];
    fn zero_() -> Self;
    fn one_() -> Self;
    fn inv(&self) -> Option<Self>;
    fn pow_(&self, e: &Self) -> Self;
    fn is_zero_(&self) -> bool;
    fn is_even_(&self) -> Option<bool>;
    fn from_slice_(b: &[u8]) -> Option<Self>;
    fn try_from_(b: &[u8]) -> Result<Self, String>;
    fn from_str_(s: &str) -> Result<Self, String>;
    fn interpret_(b: &[u8; 64]) -> Self;
    fn into_bytes_(&self) -> [u8; 32];
    /// all operator forms of `a op b`, op in {'+','-','*'}
    fn forms(a: Self, b: Self, op: char) -> Vec<(&'static str, Self)>;
}

macro_rules! forms_impl {
    ($a:ident, $b:ident, $op:tt, $opa:tt) => {{
        let mut v: Vec<(&'static str, Self)> = Vec::with_capacity(6);
        v.push(("a op b", $a $op $b));
        v.push(("&a op b", &$a $op $b));
        v.push(("a op &b", $a $op &$b));
        v.push(("&a op &b", &$a $op &$b));
        let mut t = $a;
        t $opa $b;
        v.push(("a op= b", t));
        let mut t = $a;
        t $opa &$b;
        v.push(("a op= &b", t));
        v
    }};
}

impl FpApi for Fq {
    const NAME: &'static str = "Fq";
    fn modulus() -> &'static N {
        refmodel::q()
    }
    fn neg_ref(&self) -> Self {
        -self
    }
    fn bytes(&self) -> [u8; 32] {
        self.to_slice()
    }
    fn zero_() -> Self {
        Fq::zero()
    }
    fn one_() -> Self {
        Fq::one()
    }
    fn inv(&self) -> Option<Self> {
        self.inverse()
    }
    fn pow_(&self, e: &Self) -> Self {
        self.pow(*e)
    }
    fn is_zero_(&self) -> bool {
        self.is_zero()
    }
    fn is_even_(&self) -> Option<bool> {
        Some(self.is_even())
    }
    fn from_slice_(b: &[u8]) -> Option<Self> {
        Fq::from_slice(b)
    }
    fn try_from_(b: &[u8]) -> Result<Self, String> {
        Fq::try_from(b).map_err(|e| format!("{:?}", e))
    }
    fn from_str_(s: &str) -> Result<Self, String> {
        Fq::from_str(s).map_err(|e| format!("{:?}", e))
    }
    fn interpret_(b: &[u8; 64]) -> Self {
        Fq::interpret(b)
    }
    fn into_bytes_(&self) -> [u8; 32] {
        (*self).into()
    }
    fn forms(a: Self, b: Self, op: char) -> Vec<(&'static str, Self)> {
        match op {
            '+' => forms_impl!(a, b, +, +=),
            '-' => forms_impl!(a, b, -, -=),
            '*' => forms_impl!(a, b, *, *=),
            _ => unreachable!(),
        }
    }
}

impl FpApi for Fr {
    const NAME: &'static str = "Fr";
    fn modulus() -> &'static N {
        refmodel::r()
    }
    fn neg_ref(&self) -> Self {
        -self
    }
    fn bytes(&self) -> [u8; 32] {
        self.to_slice()
    }
    fn zero_() -> Self {
        Fr::zero()
    }
    fn one_() -> Self {
        Fr::one()
    }
    fn inv(&self) -> Option<Self> {
        self.inverse()
    }
    fn pow_(&self, e: &Self) -> Self {
        self.pow(*e)
    }
    fn is_zero_(&self) -> bool {
        self.is_zero()
    }
    fn is_even_(&self) -> Option<bool> {
        None
    }
    fn from_slice_(b: &[u8]) -> Option<Self> {
        Fr::from_slice(b)
    }
    fn try_from_(b: &[u8]) -> Result<Self, String> {
        Fr::try_from(b).map_err(|e| format!("{:?}", e))
    }
    fn from_str_(s: &str) -> Result<Self, String> {
        Fr::from_str(s).map_err(|e| format!("{:?}", e))
    }
    fn interpret_(b: &[u8; 64]) -> Self {
        Fr::interpret(b)
    }
    fn into_bytes_(&self) -> [u8; 32] {
        let by_ref: [u8; 32] = self.into();
        let by_val: [u8; 32] = (*self).into();
        assert_eq!(by_ref, by_val);
        by_val
    }
    fn forms(a: Self, b: Self, op: char) -> Vec<(&'static str, Self)> {
        match op {
            '+' => forms_impl!(a, b, +, +=),
            '-' => forms_impl!(a, b, -, -=),
            '*' => forms_impl!(a, b, *, *=),
            _ => unreachable!(),
        }
    }
}

/// (library values, model values) for an alphabet
pub fn lift<F: FpApi>(vals: &[N]) -> Vec<F> {
    vals.iter().map(|x| F::from_n(x)).collect()
}
#[allow(dead_code)]
pub fn is_zero_n(x: &N) -> bool {
    x.is_zero()
}

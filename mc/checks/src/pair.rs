//! Pairing layer: C01 (bilinearity), C02 (byte-for-byte R-ate pairing), C03 (entry points agree,
//! representative irrelevant, prepared values reusable), C11 (Gt group laws).

use crate::api::{build, fr, lib, ref_mul, reps_id, GroupApi, Rep, Val};
use crate::grp::values;
use mccore::alpha::{dlogs, scalars};
use mccore::{ensure, gn, gs, jn, unrank, Bad, Meta, Run, Spec, Tally, Tier};
use num_traits::{One, Zero};
use refmodel::{addm, consts, mulm, n, r, F12, Fld, N};
use serde_json::{json, Value};
use sm9_core::{fast_pairing, pairing, G2Prepared, Group, Gt, G1, G2};
use std::collections::HashMap;
use std::sync::{Mutex, OnceLock};

#[derive(Clone, Copy, Debug, PartialEq, Eq)]
pub enum Ep {
    Pairing,
    Fast,
    Prepared,
}
impl Ep {
    pub const ALL: [Ep; 3] = [Ep::Pairing, Ep::Fast, Ep::Prepared];
    pub fn name(self) -> &'static str {
        match self {
            Ep::Pairing => "pairing",
            Ep::Fast => "fast_pairing",
            Ep::Prepared => "G2Prepared::pairing",
        }
    }
    pub fn parse(s: &str) -> Ep {
        match s {
            "pairing" => Ep::Pairing,
            "fast_pairing" => Ep::Fast,
            _ => Ep::Prepared,
        }
    }
    pub fn call(self, p: G1, q: G2) -> Result<Gt, Bad> {
        lib(self.name(), || match self {
            Ep::Pairing => pairing(p, q),
            Ep::Fast => fast_pairing(p, q),
            Ep::Prepared => G2Prepared::from(q).pairing(&p),
        })
    }
}

/// reference pairing of the generators (pinned by the published vectors in the model self-test)
pub fn g_ref() -> &'static F12 {
    static G: OnceLock<F12> = OnceLock::new();
    G.get_or_init(|| refmodel::pairing(&consts().g1, &consts().g2))
}
/// bytes of g^k, k mod r, cached
pub fn gpow_bytes(k: &N) -> Vec<u8> {
    static C: OnceLock<Mutex<HashMap<N, Vec<u8>>>> = OnceLock::new();
    let c = C.get_or_init(|| Mutex::new(HashMap::new()));
    let k = k % r();
    if let Some(v) = c.lock().unwrap().get(&k) {
        return v.clone();
    }
    let v = g_ref().pow(&k).to_bytes();
    c.lock().unwrap().insert(k, v.clone());
    v
}
fn short(b: &[u8]) -> String {
    format!("{}..{}", refmodel::hex(&b[..8]), refmodel::hex(&b[b.len() - 8..]))
}

/// e(A, B) through one entry point must be the model value g^(dA*dB), byte for byte
pub fn expect_pairing(ep: Ep, a: &Val<G1>, b: &Val<G2>) -> Result<Gt, Bad> {
    let got = ep.call(a.v, b.v)?;
    let want = gpow_bytes(&mulm(&a.d, &b.d, r()));
    let gb = got.to_slice();
    let cls = if a.d.is_zero() || b.d.is_zero() { "identity-not-one" } else { "wrong-value" };
    ensure!(
        gb[..] == want[..],
        cls,
        "{}(P, Q) with P={} Q={}: library {} , model g^(ab) {}",
        ep.name(),
        a.json(),
        b.json(),
        short(&gb),
        short(&want)
    );
    Ok(got)
}

// ---------------------------------------------------------------------------------------------
// C01
// ---------------------------------------------------------------------------------------------
fn reps3<G: GroupApi>(d: &N, seed: u64) -> Vec<Val<G>> {
    // three representatives per element, plus one per structurally special scale factor of the coordinate
    // field (G2: a purely imaginary lambda); identity lists are padded to the same length
    let extra = G::extra_scales(seed);
    let reps: Vec<Rep<G::RF>> = if d.is_zero() {
        let mut v = vec![Rep::Id0, Rep::IdSub, Rep::IdNew(G::RF::one(), G::RF::one())];
        if !extra.is_empty() {
            v.push(Rep::IdSubJ);
        }
        v
    } else {
        let mut v = vec![Rep::Aff, Rep::LibMul, Rep::Scaled(G::rf_generic(seed, 1))];
        if let Some(s) = extra.first() {
            v.push(Rep::Scaled(s.clone()));
        }
        v
    };
    // a member that cannot be built as specified falls back to the plain representative (keeps the grid rectangular)
    reps.iter()
        .map(|rp| build::<G>(d, rp).or_else(|| build::<G>(d, if d.is_zero() { &Rep::Id0 } else { &Rep::Aff })).expect("plain representative"))
        .collect()
}
pub fn c01_bilinear(a: &Val<G1>, b: &Val<G2>, ep: Ep) -> Result<u32, Bad> {
    let e = expect_pairing(ep, a, b)?;
    // (iii) e(P1,P2)^(ab) == e(aP1, bP2) as a library-level equation
    let base = ep.call(G1::one(), G2::one())?;
    let pw = lib("Gt::pow", || base.pow(fr(&mulm(&a.d, &b.d, r()))))?;
    ensure!(pw.to_slice()[..] == e.to_slice()[..], "bilinearity", "{}: e(P1,P2)^(ab) != e(aP1,bP2) for P={} Q={}", ep.name(), a.json(), b.json());
    // (v) every pairing value has order dividing r
    let one = lib("Gt::one", Gt::one)?;
    let o = lib("g^(r-1)*g", || e.pow(fr(&(r() - n(1)))) * e)?;
    ensure!(o.to_slice()[..] == one.to_slice()[..], "order", "{}: g^(r-1)*g != 1 for g = e(P,Q), P={} Q={}", ep.name(), a.json(), b.json());
    Ok(3)
}
pub fn c01_additive(a: &Val<G1>, a2: &Val<G1>, b: &Val<G2>, b2: &Val<G2>, ep: Ep) -> Result<u32, Bad> {
    // e(P+P', Q) = e(P,Q) e(P',Q)
    let sum = lib("P+P'", || a.v + a2.v)?;
    let sv = Val::<G1> { d: addm(&a.d, &a2.d, r()), rep: Rep::LibSub, v: sum };
    let lhs = expect_pairing(ep, &sv, b).map_err(|mut e| {
        e.msg = format!("with P+P' computed by the library from P={} P'={}: {}", a.json(), a2.json(), e.msg);
        e
    })?;
    let rhs = lib("Gt::mul", || ep.call(a.v, b.v).map(|x| ep.call(a2.v, b.v).map(|y| x * y)))???;
    ensure!(lhs.to_slice()[..] == rhs.to_slice()[..], "additivity", "{}: e(P+P',Q) != e(P,Q)e(P',Q) for P={} P'={} Q={}", ep.name(), a.json(), a2.json(), b.json());
    // e(P, Q+Q') = e(P,Q) e(P,Q')
    let sum2 = lib("Q+Q'", || b.v + b2.v)?;
    let sv2 = Val::<G2> { d: addm(&b.d, &b2.d, r()), rep: Rep::LibSub, v: sum2 };
    let lhs = expect_pairing(ep, a, &sv2).map_err(|mut e| {
        e.msg = format!("with Q+Q' computed by the library from Q={} Q'={}: {}", b.json(), b2.json(), e.msg);
        e
    })?;
    let rhs = lib("Gt::mul", || ep.call(a.v, b.v).map(|x| ep.call(a.v, b2.v).map(|y| x * y)))???;
    ensure!(lhs.to_slice()[..] == rhs.to_slice()[..], "additivity", "{}: e(P,Q+Q') != e(P,Q)e(P,Q') for P={} Q={} Q'={}", ep.name(), a.json(), b.json(), b2.json());
    Ok(6)
}
pub fn c01_identity(a: &Val<G1>, b: &Val<G2>, ep: Ep) -> Result<u32, Bad> {
    let e = expect_pairing(ep, a, b)?;
    let one = lib("Gt::one", Gt::one)?;
    ensure!(e.to_slice()[..] == one.to_slice()[..], "identity-not-one", "{}(P, Q) != Gt::one() although an operand is the identity: P={} Q={}", ep.name(), a.json(), b.json());
    Ok(1)
}
pub fn c01_run(run: &Run) {
    let ks = scalars(run.tier, run.seed);
    let nk = ks.len() as u64;
    let g1s: Vec<Vec<Val<G1>>> = ks.iter().map(|k| reps3::<G1>(k, run.seed)).collect();
    let g2s: Vec<Vec<Val<G2>>> = ks.iter().map(|k| reps3::<G2>(k, run.seed)).collect();
    let (rp1, rp2) = (g1s[0].len() as u64, g2s[0].len() as u64);
    run.note("alphabet", json!({"scalars": nk, "representatives_G1": rp1, "representatives_G2": rp2, "entry_points": 3}));
    // (v) non-degeneracy
    let nd = Spec { name: "c01.non-degenerate", n: 3, classes: &[], required: &[] };
    run.grid(
        nd,
        |i| {
            let ep = Ep::ALL[i as usize];
            let e = ep.call(G1::one(), G2::one())?;
            ensure!(e.to_slice()[..] != Gt::one().to_slice()[..], "degenerate", "{}(P1, P2) == 1", ep.name());
            ensure!(e.to_slice()[..] == gpow_bytes(&N::one())[..], "wrong-value", "{}(P1,P2) differs from the reference pairing of the generators", ep.name());
            Ok(Tally::new(1, true, 0))
        },
        |i| json!({"op": "c01.nondeg", "ep": Ep::ALL[i as usize].name()}),
    );
    let dims = [nk, nk, rp1, rp2, 3];
    run.grid(
        Spec { name: "c01.bilinear", n: dims.iter().product(), classes: &["a=0 or b=0", "ab!=0"], required: &["a=0 or b=0", "ab!=0"] },
        |i| {
            let ix = unrank(i, &dims);
            let (a, b, ep) = (&g1s[ix[0]][ix[2]], &g2s[ix[1]][ix[3]], Ep::ALL[ix[4]]);
            let k = c01_bilinear(a, b, ep)?;
            let z = a.d.is_zero() || b.d.is_zero();
            Ok(Tally::new(k, !z, if z { 1 } else { 2 }))
        },
        |i| {
            let ix = unrank(i, &dims);
            json!({"op": "c01.bilinear", "P": g1s[ix[0]][ix[2]].json(), "Q": g2s[ix[1]][ix[3]].json(), "ep": Ep::ALL[ix[4]].name()})
        },
    );
    // additivity over a sub-alphabet with mixed representatives
    // sub-alphabet for the sums: 0, 1, 2, 3, r-1, lambda (P and lambda*P share y: a sum the adder can get wrong on
    // its own terms), (r-1)/2, then the following members of K in the thorough tier
    let kk: usize = run.tier.pick(7, 12);
    let lam_ix = ks.iter().position(|k| k == &consts().lambda).unwrap_or(5);
    let mut sub: Vec<usize> = vec![0, 1, 2, 3, 4, lam_ix, 6];
    for i in 0..ks.len() {
        if sub.len() >= kk {
            break;
        }
        if !sub.contains(&i) {
            sub.push(i);
        }
    }
    let ns = sub.len() as u64;
    let dims2 = [ns, ns, ns, rp2, 3];
    run.grid(
        Spec { name: "c01.additive", n: dims2.iter().product(), classes: &["sum-is-identity"], required: &["sum-is-identity"] },
        |i| {
            let ix = unrank(i, &dims2);
            // representatives rotate with the indices so that mixed combinations occur
            let rp = ix[3];
            let a = &g1s[sub[ix[0]]][rp % rp1 as usize];
            let a2 = &g1s[sub[ix[1]]][(rp + ix[1]) % rp1 as usize];
            let b = &g2s[sub[ix[2]]][(rp + 1) % rp2 as usize];
            let b2 = &g2s[sub[ix[0]]][(rp + 2) % rp2 as usize];
            let k = c01_additive(a, a2, b, b2, Ep::ALL[ix[4]])?;
            let z = addm(&a.d, &a2.d, r()).is_zero();
            Ok(Tally::new(k, true, z as u32))
        },
        |i| {
            let ix = unrank(i, &dims2);
            let rp = ix[3];
            json!({"op": "c01.additive", "P": g1s[sub[ix[0]]][rp % rp1 as usize].json(), "P2": g1s[sub[ix[1]]][(rp + ix[1]) % rp1 as usize].json(),
                   "Q": g2s[sub[ix[2]]][(rp + 1) % rp2 as usize].json(), "Q2": g2s[sub[ix[0]]][(rp + 2) % rp2 as usize].json(), "ep": Ep::ALL[ix[4]].name()})
        },
    );
    // (iv) every identity representative against every value on the other side
    let id1: Vec<Val<G1>> = reps_id::<G1>(run.seed).iter().filter_map(|rp| build::<G1>(&N::zero(), rp)).collect();
    let id2: Vec<Val<G2>> = reps_id::<G2>(run.seed).iter().filter_map(|rp| build::<G2>(&N::zero(), rp)).collect();
    let v1 = crate::grp::values_small::<G1>(run.seed);
    let v2 = crate::grp::values_small::<G2>(run.seed);
    let mut cases: Vec<(Val<G1>, Val<G2>)> = vec![];
    for a in &id1 {
        for b in v2.iter().chain(id2.iter()) {
            cases.push((a.clone(), b.clone()));
        }
    }
    for b in &id2 {
        for a in &v1 {
            cases.push((a.clone(), b.clone()));
        }
    }
    let nc = cases.len() as u64;
    run.grid(
        Spec { name: "c01.identity", n: nc * 3, classes: &[], required: &[] },
        |i| {
            let (a, b) = &cases[(i / 3) as usize];
            Ok(Tally::new(c01_identity(a, b, Ep::ALL[(i % 3) as usize])?, true, 0))
        },
        |i| {
            let (a, b) = &cases[(i / 3) as usize];
            json!({"op": "c01.identity", "P": a.json(), "Q": b.json(), "ep": Ep::ALL[(i % 3) as usize].name()})
        },
    );
}
pub fn c01_meta(_run: &Run) -> Meta {
    Meta {
        rule: "grid: every (a, b) over K x K x {Aff, LibMul, Scaled}^2 (identity representatives Id0, P-P, new(1,1,0) when the scalar is 0) x the \
               three entry points: bytes(e(aP1,bP2)) == bytes(g^(ab)) with g the reference pairing of the generators, e(P1,P2)^(ab) == e(aP1,bP2) and \
               g^(r-1)*g == 1 as library equations; additivity on (a, a', b) / (a, b, b') with the sums computed by the library from mixed \
               representatives; every identity representative against every value; non-degeneracy. Non-trivial: ab != 0."
            .into(),
        engine: "sm9mc-grid".into(),
        bounds: json!({}),
        assumptions: vec!["every element of G1/G2 is a multiple of the generator, so the property is decided by discrete logs".into()],
    }
}

// ---------------------------------------------------------------------------------------------
// C02
// ---------------------------------------------------------------------------------------------
/// the direct textbook computation (NOT the discrete-log shortcut): nothing computed by the library
/// enters the oracle
pub fn c02_case(a: &N, b: &N, seed: u64) -> Result<u32, Bad> {
    let p = ref_mul::<G1>(a);
    let q = ref_mul::<G2>(b);
    let want = refmodel::pairing(&p, &q).to_bytes();
    let mut k = 0;
    for va in reps3::<G1>(a, seed) {
        for vb in reps3::<G2>(b, seed) {
            for ep in Ep::ALL {
                let got = ep.call(va.v, vb.v)?;
                let gb = got.to_slice();
                ensure!(
                    gb[..] == want[..],
                    "wrong-bytes",
                    "{}(P, Q) with P={} Q={}: library {} , textbook R-ate pairing {}",
                    ep.name(),
                    va.json(),
                    vb.json(),
                    short(&gb),
                    short(&want)
                );
                k += 1;
            }
        }
    }
    Ok(k)
}
/// one operand given as the Jacobian rescaling by a boundary field value (the other one affine): "any representative"
pub fn c02_special_case(side: u64, a: &N, b: &N, sc: &Value) -> Result<u32, Bad> {
    let want = refmodel::pairing(&ref_mul::<G1>(a), &ref_mul::<G2>(b)).to_bytes();
    let (va, vb) = if side == 0 {
        (crate::api::build::<G1>(a, &crate::api::Rep::Scaled(refmodel::Fq(gn(sc, "s")))), crate::api::build::<G2>(b, &crate::api::Rep::Aff))
    } else {
        (crate::api::build::<G1>(a, &crate::api::Rep::Aff), crate::api::build::<G2>(b, &crate::api::Rep::Scaled(crate::api::gf2(&sc["s"]))))
    };
    let (va, vb) = match (va, vb) {
        (Some(x), Some(y)) => (x, y),
        _ => return Ok(0),
    };
    let mut k = 0;
    for ep in Ep::ALL {
        let gb = ep.call(va.v, vb.v)?.to_slice();
        ensure!(gb[..] == want[..], "wrong-bytes", "{}(P, Q) with P={} Q={}: library {} , textbook R-ate pairing {}", ep.name(), va.json(), vb.json(), short(&gb), short(&want));
        k += 1;
    }
    Ok(k)
}
pub fn c02_vectors() -> Result<u32, Bad> {
    use refmodel::vectors as v;
    use refmodel::{nhex, F2};
    // inputs are built from the standard's coordinates through G::new(x, y, 1): no other operation is involved
    let raw = refmodel::unhex(v::PUBS_RAW_HEX);
    let c = |i: usize| refmodel::from_be(&raw[32 * i..32 * i + 32]);
    let one2 = F2 { a: N::one(), b: N::zero() };
    let pub_s = <G2 as GroupApi>::new_jac(&F2 { a: c(1), b: c(0) }, &F2 { a: c(3), b: c(2) }, &one2);
    let ra = <G1 as GroupApi>::new_jac(&refmodel::Fq(nhex(v::RA_X)), &refmodel::Fq(nhex(v::RA_Y)), &refmodel::Fq(N::one()));
    let deb = <G2 as GroupApi>::new_jac(&F2 { a: nhex(v::DEB_XX), b: nhex(v::DEB_XY) }, &F2 { a: nhex(v::DEB_YX), b: nhex(v::DEB_YY) }, &one2);
    for ep in Ep::ALL {
        let g = ep.call(G1::one(), pub_s)?;
        ensure!(g.to_slice()[..] == refmodel::unhex(v::G_KS_HEX)[..], "vector", "{}: e(P1,[ks]P2) differs from the published value", ep.name());
        // the published w = g^r is checked on the reference side (model self-test) and through F_q^12 here
        let w = F12::from_bytes(&g.to_slice()).map(|x| x.pow(&nhex(v::R_RAND_HEX)).to_bytes());
        ensure!(w.as_deref() == Some(&refmodel::unhex(v::G_KS_R_HEX)[..]), "vector", "{}: e(P1,[ks]P2)^r differs from the published 384 bytes", ep.name());
        let g2 = ep.call(ra, deb)?;
        ensure!(g2.to_slice()[..] == refmodel::unhex(v::G_RA_DEB_HEX)[..], "vector", "{}: e(R_A, de_B) differs from the published value", ep.name());
    }
    Ok(6)
}
pub fn c02_run(run: &Run) {
    let ks: Vec<N> = match run.tier {
        Tier::Quick => {
            let c = consts();
            vec![n(1), n(2), r() - n(1), c.lambda.clone(), mccore::alpha::generic(r(), run.seed, 0xc02, 1).pop().unwrap()]
        }
        Tier::Thorough => scalars(Tier::Thorough, run.seed).into_iter().filter(|k| !k.is_zero()).collect(),
    };
    let nk = ks.len() as u64;
    run.note("alphabet", json!({"scalars_per_side": nk, "reference_pairings": nk * nk}));
    run.grid(
        Spec { name: "c02.vectors", n: 1, classes: &[], required: &[] },
        |_| Ok(Tally::new(c02_vectors()?, true, 0)),
        |_| json!({"op": "c02.vectors"}),
    );
    {
        // Scaled(s) for every special field value s on one side (G2: as real and as purely imaginary factor)
        let mut cases: Vec<(u64, Value)> = vec![];
        for sv in mccore::alpha::special(refmodel::q()) {
            if sv.is_zero() {
                continue;
            }
            cases.push((0, json!({"s": jn(&sv)})));
            for e in <G2 as GroupApi>::scale_embeddings(&sv) {
                cases.push((1, json!({"s": crate::api::jf2(&e)})));
            }
        }
        let ab: Vec<(N, N)> = match run.tier {
            Tier::Quick => vec![(n(1), n(1))],
            Tier::Thorough => vec![(n(1), n(1)), (n(2), r() - n(1)), (consts().lambda.clone(), n(3))],
        };
        let (nc, nab) = (cases.len() as u64, ab.len() as u64);
        run.grid(
            Spec { name: "c02.special-representatives", n: nc * nab, classes: &[], required: &[] },
            |i| {
                let (c, (a, b)) = (&cases[(i / nab) as usize], &ab[(i % nab) as usize]);
                let k = c02_special_case(c.0, a, b, &c.1)?;
                Ok(Tally::new(k, k > 0, 0))
            },
            |i| {
                let (c, (a, b)) = (&cases[(i / nab) as usize], &ab[(i % nab) as usize]);
                json!({"op": "c02.special", "side": c.0, "a": jn(a), "b": jn(b), "scale": c.1})
            },
        );
    }
    coef_boundary_driver(run, "c02.first-line-coefficient-boundary");
    let seed = run.seed;
    run.grid(
        Spec { name: "c02.textbook", n: nk * nk, classes: &[], required: &[] },
        |i| Ok(Tally::new(c02_case(&ks[(i / nk) as usize], &ks[(i % nk) as usize], seed)?, true, 0)),
        |i| json!({"op": "c02.textbook", "a": jn(&ks[(i / nk) as usize]), "b": jn(&ks[(i % nk) as usize]), "seed": seed}),
    );
}

// ---- first-line coefficient with a prescribed stored (Montgomery) word ---------------------------------------------
/// The Jacobian Miller loop of pairing() halves 3 x_T^2 x_P (both components); the prepared loop never halves.
/// Members: G1 points whose x makes one component of the FIRST tangent coefficient 3 x_Q^2 x_P a value whose stored
/// (Montgomery) word ends in a run of one bits crossing 1, 2 or 3 limb boundaries, or has a zero low limb above bit 0 -
/// the carry classes of a limb-wise halving / addition. x_P = m R^-1 / (3 c), c = Re or Im of x_Q^2; m is scanned
/// upwards (bits above the pattern) until x_P carries a curve point. Oracle: all three entry points give the bytes
/// of the textbook pairing of these affine coordinates.
pub const COEF_PATTERNS: u64 = 4;
pub fn coef_boundary_point(qd: &N, comp: u64, pat: u64) -> Option<(N, N, N)> {
    let q = refmodel::q();
    let qq = ref_mul::<G2>(qd);
    let (xq, _) = qq.xy()?;
    let s = xq.sq();
    let c = if comp == 0 { s.a.clone() } else { s.b.clone() };
    if c.is_zero() {
        return None;
    }
    let (w, low): (u32, N) = match pat {
        0 => (65, (N::one() << 65u32) - N::one()),
        1 => (129, (N::one() << 129u32) - N::one()),
        2 => (193, (N::one() << 193u32) - N::one()),
        _ => (65, N::one()),
    };
    let den = refmodel::invm(&mulm(&n(3), &c, q), q)?;
    let ri = mccore::alpha::rinv(q);
    let hi = refmodel::nhex("123456789abcdef00fedcba987654321") << 128u32;
    for k in 1u64..4000 {
        let m = ((&hi >> (w + 24)) << (w + 24)) | (N::from(k) << w) | &low;
        if &m >= q {
            continue;
        }
        let x = mulm(&mulm(&m, &ri, q), &den, q);
        let rhs = addm(&mulm(&mulm(&x, &x, q), &x, q), &n(5), q);
        if let Some(y) = refmodel::sqrt_mod(&rhs, q) {
            return Some((x, y, m));
        }
    }
    None
}
pub fn coef_boundary_case(qd: &N, comp: u64, pat: u64) -> Result<u32, Bad> {
    let (x, y, m) = match coef_boundary_point(qd, comp, pat) {
        Some(t) => t,
        None => return Ok(0),
    };
    let qv = match build::<G2>(qd, &Rep::Aff) {
        Some(v) => v,
        None => return Ok(0),
    };
    let p = match lib("AffineG1::new", || <G1 as GroupApi>::affine_new(&refmodel::Fq(x.clone()), &refmodel::Fq(y.clone())))? {
        Ok(p) => p,
        Err(_) => return Ok(0), // a decoder / constructor defect is C09's business
    };
    let want = refmodel::pairing(&refmodel::Pt::Aff(refmodel::Fq(x.clone()), refmodel::Fq(y.clone())), &ref_mul::<G2>(qd)).to_bytes();
    let mut k = 0;
    for ep in Ep::ALL {
        let gb = ep.call(p, qv.v)?.to_slice();
        ensure!(
            gb[..] == want[..],
            "wrong-bytes",
            "{}(P, Q) with Q={} and P=({:x}, {:x}) chosen so that component {} of 3 x_Q^2 x_P is stored as {:x}: library {} , textbook R-ate pairing {}",
            ep.name(),
            qv.json(),
            x,
            y,
            comp,
            m,
            short(&gb),
            short(&want)
        );
        k += 1;
    }
    Ok(k)
}
pub fn coef_boundary_driver(run: &Run, name: &'static str) {
    let qds: Vec<N> = match run.tier {
        Tier::Quick => vec![n(1)],
        Tier::Thorough => vec![n(1), n(2), r() - n(1), consts().lambda.clone()],
    };
    let per = 2 * COEF_PATTERNS;
    run.grid(
        Spec { name, n: qds.len() as u64 * per, classes: &[], required: &[] },
        |i| {
            let k = coef_boundary_case(&qds[(i / per) as usize], (i % per) / COEF_PATTERNS, i % COEF_PATTERNS)?;
            Ok(Tally::new(k, k > 0, 0))
        },
        |i| json!({"op": "pair.coef-boundary", "b": jn(&qds[(i / per) as usize]), "comp": (i % per) / COEF_PATTERNS, "pat": i % COEF_PATTERNS}),
    );
}
pub fn c02_meta(_run: &Run) -> Meta {
    Meta {
        rule: "grid: every (a, b) over K2 x K2; the reference computes a*P1 and b*P2 by its own affine double-and-add and then the textbook R-ate \
               pairing directly (untwist, affine Miller loop over the bits of 6t+2, two Frobenius line steps, generic exponentiation by \
               (q^12-1)/r in F_q[w]/(w^12+2)); the library's 384 bytes must be identical for {Aff, LibMul, Scaled}^2 x three entry points; one operand \
               rescaled by every special field value (stored 1, cube roots of unity, -1, ...) x three entry points. \
               Plus the three published values of the SM9 standard through every entry point."
            .into(),
        engine: "sm9mc-grid".into(),
        bounds: json!({}),
        assumptions: vec!["the textbook implementation is bound to the standard by reproducing its published vectors at every start".into()],
    }
}

// ---------------------------------------------------------------------------------------------
// C03
// ---------------------------------------------------------------------------------------------
pub fn c03_pair(a: &Val<G1>, b: &Val<G2>) -> Result<u32, Bad> {
    let mut first: Option<Gt> = None;
    for ep in Ep::ALL {
        let e = expect_pairing(ep, a, b)?;
        if let Some(f) = first {
            ensure!(f.to_slice()[..] == e.to_slice()[..], "entry-points-disagree", "{} differs from pairing() for P={} Q={}", ep.name(), a.json(), b.json());
        } else {
            first = Some(e);
        }
    }
    Ok(3)
}
/// all call sequences on one prepared value: case = (Q, sequence of G1 indices, clone flags)
pub fn c03_prepared_seq(q: &Val<G2>, ps: &[Val<G1>], seq: &[usize]) -> Result<u32, Bad> {
    let mut prep = lib("G2Prepared::from", || G2Prepared::from(q.v))?;
    let mut k = 0;
    for (step, &code) in seq.iter().enumerate() {
        // code = 2*index + clone_flag
        let (pi, cl) = (code / 2, code % 2 == 1);
        if cl {
            prep = lib("clone", || prep.clone())?;
        }
        let p = &ps[pi];
        let got = lib("G2Prepared::pairing", || prep.pairing(&p.v))?;
        let want = gpow_bytes(&mulm(&p.d, &q.d, r()));
        let cls = if p.d.is_zero() || q.d.is_zero() { "identity-not-one" } else { "wrong-value" };
        ensure!(
            got.to_slice()[..] == want[..],
            cls,
            "call #{} of the sequence on one prepared value (Q={}): pairing(&P) with P={} gives {} , model {}",
            step + 1,
            q.json(),
            p.json(),
            short(&got.to_slice()),
            short(&want)
        );
        k += 1;
    }
    Ok(k)
}
fn c03_p_alphabet(seed: u64) -> Vec<Val<G1>> {
    let c = consts();
    // always six members (indices are part of recorded call sequences): a member that cannot be built as
    // specified falls back to the affine / canonical representative of the same element
    let pick = |d: &N, rp: Rep<refmodel::Fq>| build::<G1>(d, &rp).or_else(|| build::<G1>(d, if d.is_zero() { &Rep::Id0 } else { &Rep::Aff })).expect("affine representative");
    vec![
        pick(&n(1), Rep::Aff),
        pick(&n(2), Rep::LibMul),
        pick(&(r() - n(1)), Rep::Scaled(<G1 as GroupApi>::rf_generic(seed, 1))),
        pick(&N::zero(), Rep::Id0),
        pick(&N::zero(), Rep::IdSub),
        pick(&c.lambda, Rep::LibSub),
    ]
}
fn c03_q_alphabet(seed: u64) -> Vec<Val<G2>> {
    let pick = |d: &N, rp: Rep<refmodel::F2>| build::<G2>(d, &rp).or_else(|| build::<G2>(d, if d.is_zero() { &Rep::Id0 } else { &Rep::Aff })).expect("affine representative");
    vec![
        pick(&n(1), Rep::Aff),
        pick(&n(3), Rep::LibMul),
        pick(&(r() - n(2)), Rep::Scaled(<G2 as GroupApi>::rf_generic(seed, 1))),
        pick(&n(2), Rep::LibSub),
        pick(&N::zero(), Rep::Id0),
        pick(&N::zero(), Rep::IdSub),
    ]
}
fn seq_of(mut i: u64, base: u64) -> Vec<usize> {
    // sequences of length 1..: index 0.. enumerates length 1 first
    let mut len = 1;
    let mut block = base;
    while i >= block {
        i -= block;
        block *= base;
        len += 1;
    }
    let mut s = vec![];
    for _ in 0..len {
        s.push((i % base) as usize);
        i /= base;
    }
    s.reverse();
    s
}
pub fn c03_run(run: &Run) {
    let v1 = values::<G1>(run.tier, run.seed);
    let v2 = values::<G2>(run.tier, run.seed);
    let (n1, n2) = (v1.len() as u64, v2.len() as u64);
    run.note("alphabet", json!({"G1_values": n1, "G2_values": n2}));
    const CL: [&str; 4] = ["both-non-identity", "P-identity", "Q-identity", "non-canonical-identity-operand"];
    run.grid(
        Spec { name: "c03.all-representatives", n: n1 * n2, classes: &CL, required: &CL },
        |i| {
            let (a, b) = (&v1[(i / n2) as usize], &v2[(i % n2) as usize]);
            let k = c03_pair(a, b)?;
            let mut c = 0;
            if !a.d.is_zero() && !b.d.is_zero() {
                c |= 1;
            }
            if a.d.is_zero() {
                c |= 2;
            }
            if b.d.is_zero() {
                c |= 4;
            }
            if (a.d.is_zero() && a.rep != Rep::Id0) || (b.d.is_zero() && b.rep != Rep::Id0) {
                c |= 8;
            }
            Ok(Tally::new(k, true, c))
        },
        |i| json!({"op": "c03.pair", "P": v1[(i / n2) as usize].json(), "Q": v2[(i % n2) as usize].json()}),
    );
    // Scaled(s) for every special field value s, against a small set on the other side
    let s1 = crate::grp::values_scaled_special::<G1>(run.seed);
    let s2 = crate::grp::values_scaled_special::<G2>(run.seed);
    let m1 = crate::grp::values_small::<G1>(run.seed);
    let m2 = crate::grp::values_small::<G2>(run.seed);
    let take = run.tier.pick(3usize, 18);
    let mut cases: Vec<(Val<G1>, Val<G2>)> = vec![];
    for a in &s1 {
        for b in m2.iter().take(take) {
            cases.push((a.clone(), b.clone()));
        }
    }
    for b in &s2 {
        for a in m1.iter().take(take) {
            cases.push((a.clone(), b.clone()));
        }
    }
    let nc = cases.len() as u64;
    run.grid(
        Spec { name: "c03.scaled-special", n: nc, classes: &[], required: &[] },
        |i| Ok(Tally::new(c03_pair(&cases[i as usize].0, &cases[i as usize].1)?, true, 0)),
        |i| json!({"op": "c03.pair", "P": cases[i as usize].0.json(), "Q": cases[i as usize].1.json()}),
    );
    // prepared machine: all call sequences (with optional clone before each call) up to the depth bound
    let ps = c03_p_alphabet(run.seed);
    let qs = c03_q_alphabet(run.seed);
    let depth: u32 = run.tier.pick(3, 4);
    let base = (ps.len() * 2) as u64;
    let nseq: u64 = (1..=depth).map(|l| base.pow(l)).sum();
    let nq = qs.len() as u64;
    run.grid(
        Spec { name: "c03.prepared-call-sequences", n: nq * nseq, classes: &[], required: &[] },
        |i| {
            let s = seq_of(i % nseq, base);
            let k = c03_prepared_seq(&qs[(i / nseq) as usize], &ps, &s)?;
            Ok(Tally::new(k, s.len() > 1, 0))
        },
        |i| json!({"op": "c03.prepared", "Q": qs[(i / nseq) as usize].json(), "seq": seq_of(i % nseq, base), "seed": run.seed}),
    );
    run.note("prepared_machine", json!({"Q_alphabet": nq, "P_alphabet": ps.len(), "depth": depth, "call_sequences": nq * nseq}));
    c03_call_order(run);
    coef_boundary_driver(run, "c03.first-line-coefficient-boundary");
}
/// hidden state across calls: every ordered pair of calls (entry point, P, Q) executed back to back on ONE thread,
/// with nothing else running; the second call must return the model value whatever the first one was
/// (a cache keyed on part of the input - e.g. x only, so that Q and -Q collide - would show here)
pub fn c03_call_order(run: &Run) {
    let t0 = std::time::Instant::now();
    let c = consts();
    let ps: Vec<Val<G1>> = [n(1), r() - n(1), c.lambda.clone(), n(2)].iter().filter_map(|d| build::<G1>(d, &Rep::Aff)).collect();
    let qs: Vec<Val<G2>> = [n(1), r() - n(1), c.lambda.clone(), n(2)].iter().filter_map(|d| build::<G2>(d, &Rep::Aff)).collect();
    let mut calls: Vec<(Ep, usize, usize)> = vec![];
    for ep in Ep::ALL {
        for i in 0..ps.len() {
            for j in 0..qs.len() {
                calls.push((ep, i, j));
            }
        }
    }
    let mut n_seq = 0u64;
    'outer: for (a, first) in calls.iter().enumerate() {
        for (b, second) in calls.iter().enumerate() {
            let _ = first.0.call(ps[first.1].v, qs[first.2].v);
            let res = expect_pairing(second.0, &ps[second.1], &qs[second.2]);
            n_seq += 1;
            if let Err(mut e) = res {
                e.class = format!("call-order:{}", e.class);
                e.msg = format!("after the call {}(P={}, Q={}): {}", first.0.name(), ps[first.1].json(), qs[first.2].json(), e.msg);
                let (f, s) = (first.clone(), second.clone());
                run.record_fail("c03.call-order", (a * calls.len() + b) as u64, e, || {
                    json!({"op": "c03.callorder", "first": {"ep": f.0.name(), "P": ps[f.1].json(), "Q": qs[f.2].json()},
                           "second": {"ep": s.0.name(), "P": ps[s.1].json(), "Q": qs[s.2].json()}})
                });
                if run.fail_count() > 20 {
                    break 'outer;
                }
            }
        }
    }
    run.add_counts(n_seq, n_seq * 2, n_seq);
    run.add_driver_summary(json!({"driver": "c03.call-order", "engine": "sequential grid (one thread, nothing else running)", "calls": calls.len(),
        "ordered_pairs_of_calls": n_seq, "wall_s": t0.elapsed().as_secs_f64()}));
    eprintln!("[C03] c03.call-order               cases={:<10} transitions={:<11} {:.1}s", n_seq, n_seq * 2, t0.elapsed().as_secs_f64());
}
pub fn c03_meta(run: &Run) -> Meta {
    Meta {
        rule: "grid: every pair of concrete values (all representatives of D u {0} on both sides, 8 identity representatives each) x three entry \
               points: all results byte-identical to each other and to the model value; Scaled(s) for every special field value; prepared \
               machine: every sequence of calls pairing(&P_i) (each optionally preceded by clone) up to the depth bound on one prepared value, \
               every call must return the model value regardless of the history (only results are observed: a prepared value may legitimately carry internal caches)."
            .into(),
        engine: "sm9mc-grid".into(),
        bounds: json!({"prepared_depth": run.tier.pick(3, 4)}),
        assumptions: vec!["a value with z = 0 is the identity whatever its x, y (the library's own definition of is_zero)".into()],
    }
}

// ---------------------------------------------------------------------------------------------
// C11
// ---------------------------------------------------------------------------------------------
#[derive(Clone)]
pub struct GtVal {
    pub k: N,
    pub how: String,
    pub v: Gt,
}
fn gt_json(g: &GtVal) -> Value {
    json!({"k": jn(&g.k), "how": g.how})
}
/// build g^k in one of four ways
pub fn gt_build(k: &N, how: &str) -> Result<GtVal, Bad> {
    let k = k % r();
    let base = pairing(G1::one(), G2::one());
    let v = match how {
        "pow" => lib("pow", || base.pow(fr(&k)))?,
        "pairing" => {
            // e(k*P1, P2)
            lib("pairing", || pairing(G1::one() * fr(&k), G2::one()))?
        }
        "fast-split" => {
            // e(2*P1, (k/2)*P2)
            let half = mulm(&k, &refmodel::invm(&n(2), r()).unwrap(), r());
            lib("fast_pairing", || fast_pairing(G1::one() * fr(&n(2)), G2::one() * fr(&half)))?
        }
        "product" => {
            // g^(k-3) * g^3
            let a = refmodel::subm(&k, &n(3), r());
            lib("mul", || base.pow(fr(&a)) * base.pow(fr(&n(3))))?
        }
        "inverse" => {
            let m = refmodel::negm(&k, r());
            match lib("inverse", || base.pow(fr(&m)).inverse())? {
                Some(v) => v,
                None => return mccore::bad("inverse-none", format!("inverse of g^{:x} is None", m)),
            }
        }
        o => panic!("unknown construction {}", o),
    };
    Ok(GtVal { k, how: how.to_string(), v })
}
const HOWS: [&str; 5] = ["pow", "pairing", "fast-split", "product", "inverse"];
fn check_gt(what: &str, got: &Gt, k: &N, ctx: &str) -> Result<(), Bad> {
    let gb = got.to_slice();
    let want = gpow_bytes(k);
    ensure!(gb[..] == want[..], "wrong-value", "Gt {}: {} gives {} , model g^k {}", what, ctx, short(&gb), short(&want));
    // every 32-byte limb below q, and the product agrees with the flat polynomial ring
    ensure!(F12::from_bytes(&gb).is_some(), "limb>=q", "Gt {}: {} has a 32-byte limb >= q", what, ctx);
    Ok(())
}
pub fn c11_pair(g: &GtVal, h: &GtVal) -> Result<u32, Bad> {
    let ctx = format!("g={} h={}", gt_json(g), gt_json(h));
    let p = lib("g*h", || g.v * h.v)?;
    // product in F_q^12 by the independent implementation, on the decoded bytes
    let (fg, fh) = (F12::from_bytes(&g.v.to_slice()), F12::from_bytes(&h.v.to_slice()));
    let (fg, fh) = match (fg, fh) {
        (Some(a), Some(b)) => (a, b),
        _ => return mccore::bad("limb>=q", format!("an operand has a limb >= q: {}", ctx)),
    };
    ensure!(p.to_slice()[..] == fg.mul(&fh).to_bytes()[..], "wrong-product", "Gt g*h differs from the product in F_q[w]/(w^12+2): {}", ctx);
    check_gt("g*h", &p, &addm(&g.k, &h.k, r()), &ctx)?;
    let p2 = lib("h*g", || h.v * g.v)?;
    ensure!(p == p2, "commutativity", "Gt g*h != h*g: {}", ctx);
    let eq = lib("==", || g.v == h.v)?;
    let same_bytes = g.v.to_slice()[..] == h.v.to_slice()[..];
    ensure!(eq == same_bytes && eq == (g.k == h.k), "eq", "Gt (g == h) = {}, encodings equal = {}, exponents equal = {}: {}", eq, same_bytes, g.k == h.k, ctx);
    Ok(4)
}
pub fn c11_unary(g: &GtVal) -> Result<u32, Bad> {
    let ctx = format!("g={}", gt_json(g));
    check_gt("value", &g.v, &g.k, &ctx)?;
    let one = lib("one", Gt::one)?;
    check_gt("one", &one, &N::zero(), &ctx)?;
    ensure!(lib("g*one", || g.v * one)? == g.v, "identity", "Gt g*one != g: {}", ctx);
    ensure!(lib("one*g", || one * g.v)? == g.v, "identity", "Gt one*g != g: {}", ctx);
    match lib("inverse", || g.v.inverse())? {
        Some(i) => {
            check_gt("inverse", &i, &refmodel::negm(&g.k, r()), &ctx)?;
            ensure!(lib("inv*g", || i * g.v)? == one, "inverse", "Gt inverse(g)*g != one: {}", ctx);
        }
        None => return mccore::bad("inverse-none", format!("Gt inverse is None: {}", ctx)),
    }
    let p0 = lib("g^0", || g.v.pow(fr(&N::zero())))?;
    ensure!(p0 == one, "pow-zero", "Gt g^0 != one: {}", ctx);
    let p1 = lib("g^1", || g.v.pow(fr(&N::one())))?;
    ensure!(p1 == g.v, "pow-one", "Gt g^1 != g: {}", ctx);
    let pr = lib("g^(r-1)*g", || g.v.pow(fr(&(r() - n(1)))) * g.v)?;
    ensure!(pr == one, "order", "Gt g^(r-1)*g != one: {}", ctx);
    Ok(8)
}
pub fn c11_laws(g: &GtVal, h: &GtVal, a: &N, b: &N) -> Result<u32, Bad> {
    let ctx = format!("g={} h={} a={:x} b={:x}", gt_json(g), gt_json(h), a, b);
    let (la, lb) = (fr(a), fr(b));
    let l = lib("g^a*g^b", || g.v.pow(la) * g.v.pow(lb))?;
    let rr = lib("g^(a+b)", || g.v.pow(la + lb))?;
    ensure!(l == rr, "exponent-sum", "Gt g^a*g^b != g^(a+b): {}", ctx);
    check_gt("g^(a+b)", &rr, &mulm(&g.k, &addm(a, b, r()), r()), &ctx)?;
    let l = lib("(g^a)^b", || g.v.pow(la).pow(lb))?;
    let rr = lib("g^(ab)", || g.v.pow(la * lb))?;
    ensure!(l == rr, "exponent-product", "Gt (g^a)^b != g^(ab): {}", ctx);
    check_gt("g^(ab)", &rr, &mulm(&g.k, &mulm(a, b, r()), r()), &ctx)?;
    let l = lib("(gh)^a", || (g.v * h.v).pow(la))?;
    let rr = lib("g^a h^a", || g.v.pow(la) * h.v.pow(la))?;
    ensure!(l == rr, "power-of-product", "Gt (g*h)^a != g^a*h^a: {}", ctx);
    check_gt("(gh)^a", &l, &mulm(&addm(&g.k, &h.k, r()), a, r()), &ctx)?;
    Ok(6)
}
pub fn c11_smallexp(g: &GtVal, e: u64) -> Result<u32, Bad> {
    let ctx = format!("g={} e={}", gt_json(g), e);
    let p = lib("g^e", || g.v.pow(fr(&n(e))))?;
    check_gt("g^e", &p, &mulm(&g.k, &n(e), r()), &ctx)
        .map(|_| 1)
}
pub fn c11_run(run: &Run) {
    let ks = scalars(run.tier, run.seed);
    // Gamma: every k in K built in every way (k, how) -> distinct concrete constructions of g^k
    let mut gam: Vec<GtVal> = vec![];
    let mut build_fail: Vec<(N, String, Bad)> = vec![];
    for (i, k) in ks.iter().enumerate() {
        for (j, how) in HOWS.iter().enumerate() {
            // quick: rotate the constructions; thorough: all of them
            if run.tier == Tier::Quick && (i + j) % 2 == 1 && *how != "pow" {
                continue;
            }
            // pairings with an identity operand are C01/C03's business, not a way to build Gt elements here
            if k.is_zero() && (*how == "pairing" || *how == "fast-split") {
                continue;
            }
            match gt_build(k, how) {
                Ok(v) => {
                    // elements obtained from the pairing entry points are inputs here: if a pairing is wrong that is
                    // C01/C03's violation, not Gt's - such a member is dropped. pow / product / inverse are Gt's own.
                    if (*how == "pairing" || *how == "fast-split") && v.v.to_slice()[..] != gpow_bytes(&v.k)[..] {
                        crate::api::SKIPPED.lock().unwrap().push(format!("Gt k={:x} how={}", v.k, how));
                        continue;
                    }
                    gam.push(v)
                }
                Err(b) if *how == "pairing" || *how == "fast-split" => {
                    let _ = b;
                    crate::api::SKIPPED.lock().unwrap().push(format!("Gt k={:x} how={}", k, how));
                }
                Err(b) => build_fail.push((k.clone(), how.to_string(), b)),
            }
        }
    }
    for (k, how, b) in build_fail {
        run.record_fail("c11.build", 0, b, || json!({"op": "c11.unary", "k": jn(&k), "how": how}));
    }
    let ng = gam.len() as u64;
    run.note("alphabet", json!({"Gamma": ng, "scalars": ks.len(), "constructions": HOWS}));
    run.grid(
        Spec { name: "c11.pair", n: ng * ng, classes: &["same-element-built-differently", "different", "involves-one"], required: &["same-element-built-differently", "different", "involves-one"] },
        |i| {
            let (g, h) = (&gam[(i / ng) as usize], &gam[(i % ng) as usize]);
            let k = c11_pair(g, h)?;
            let mut c = if g.k == h.k { if g.how != h.how { 1 } else { 0 } } else { 2 };
            if g.k.is_zero() || h.k.is_zero() {
                c |= 4;
            }
            Ok(Tally::new(k, !(g.k.is_zero() && h.k.is_zero()), c))
        },
        |i| json!({"op": "c11.pair", "g": gt_json(&gam[(i / ng) as usize]), "h": gt_json(&gam[(i % ng) as usize])}),
    );
    run.grid(
        Spec { name: "c11.unary", n: ng, classes: &[], required: &[] },
        |i| Ok(Tally::new(c11_unary(&gam[i as usize])?, true, 0)),
        |i| {
            let g = &gam[i as usize];
            json!({"op": "c11.unary", "k": jn(&g.k), "how": g.how})
        },
    );
    let sub: Vec<GtVal> = gam.iter().step_by((gam.len() / run.tier.pick(6, 12)).max(1)).cloned().collect();
    let kk: Vec<N> = ks.iter().take(run.tier.pick(9, 16)).cloned().collect();
    let (nsb, nkk) = (sub.len() as u64, kk.len() as u64);
    let dims = [nsb, nsb, nkk, nkk];
    run.grid(
        Spec { name: "c11.exponent-laws", n: dims.iter().product(), classes: &[], required: &[] },
        |i| {
            let ix = unrank(i, &dims);
            Ok(Tally::new(c11_laws(&sub[ix[0]], &sub[ix[1]], &kk[ix[2]], &kk[ix[3]])?, true, 0))
        },
        |i| {
            let ix = unrank(i, &dims);
            json!({"op": "c11.laws", "g": gt_json(&sub[ix[0]]), "h": gt_json(&sub[ix[1]]), "a": jn(&kk[ix[2]]), "b": jn(&kk[ix[3]])})
        },
    );
    let emax: u64 = run.tier.pick(64, 1024);
    let two: Vec<GtVal> = vec![gam.iter().find(|g| g.k.is_one()).cloned().unwrap(), gam.last().cloned().unwrap()];
    run.grid(
        Spec { name: "c11.every-small-exponent", n: 2 * emax, classes: &[], required: &[] },
        |i| Ok(Tally::new(c11_smallexp(&two[(i / emax) as usize], i % emax)?, i % emax > 1, 0)),
        |i| json!({"op": "c11.smallexp", "g": gt_json(&two[(i / emax) as usize]), "e": i % emax}),
    );
}
pub fn c11_meta(run: &Run) -> Meta {
    Meta {
        rule: "grid: Gamma = g^k for k in K, each obtained in up to five ways (pow, pairing of (k,1), fast_pairing of (2,k/2), product, inverse); \
               every ordered pair for * (against the product in F_q[w]/(w^12+2) on the decoded bytes, and against g^(k+k')), commutativity and \
               == (iff encodings equal iff exponents equal); unit, inverse, g^0, g^1, order on every element; exponent laws on (g,h,a,b) over \
               sub-alphabets; EVERY exponent below the bound on two elements; every 32-byte limb < q."
            .into(),
        engine: "sm9mc-grid".into(),
        bounds: json!({"every_exponent_below": run.tier.pick(64, 1024)}),
        assumptions: vec![],
    }
}

// ---------------------------------------------------------------------------------------------
// replay
// ---------------------------------------------------------------------------------------------
fn gtv(v: &Value) -> Result<GtVal, Bad> {
    gt_build(&gn(v, "k"), &gs(v, "how"))
}
pub fn replay(c: &Value) -> Result<(), Bad> {
    let v1 = |k: &str| Val::<G1>::from_json(&c[k]);
    let v2 = |k: &str| Val::<G2>::from_json(&c[k]);
    let ep = || Ep::parse(c["ep"].as_str().unwrap_or("pairing"));
    match gs(c, "op").as_str() {
        "c01.nondeg" => {
            let e = ep().call(G1::one(), G2::one())?;
            ensure!(e != Gt::one(), "degenerate", "{}(P1, P2) == 1", ep().name());
            ensure!(e.to_slice()[..] == gpow_bytes(&N::one())[..], "wrong-value", "{}(P1,P2) differs from the reference", ep().name());
            Ok(())
        }
        "c01.bilinear" => c01_bilinear(&v1("P"), &v2("Q"), ep()).map(|_| ()),
        "c01.additive" => c01_additive(&v1("P"), &v1("P2"), &v2("Q"), &v2("Q2"), ep()).map(|_| ()),
        "c01.identity" => c01_identity(&v1("P"), &v2("Q"), ep()).map(|_| ()),
        "c02.special" => c02_special_case(c["side"].as_u64().unwrap_or(0), &gn(c, "a"), &gn(c, "b"), &c["scale"]).map(|_| ()),
        "c02.vectors" => c02_vectors().map(|_| ()),
        "pair.coef-boundary" => coef_boundary_case(&gn(c, "b"), c["comp"].as_u64().unwrap_or(0), c["pat"].as_u64().unwrap_or(0)).map(|_| ()),
        "c02.textbook" => c02_case(&gn(c, "a"), &gn(c, "b"), c["seed"].as_u64().unwrap_or(1)).map(|_| ()),
        "c03.pair" => c03_pair(&v1("P"), &v2("Q")).map(|_| ()),
        "c03.callorder" => {
            let f = &c["first"];
            let s = &c["second"];
            let _ = Ep::parse(f["ep"].as_str().unwrap()).call(Val::<G1>::from_json(&f["P"]).v, Val::<G2>::from_json(&f["Q"]).v);
            expect_pairing(Ep::parse(s["ep"].as_str().unwrap()), &Val::<G1>::from_json(&s["P"]), &Val::<G2>::from_json(&s["Q"])).map(|_| ())
        }
        "c03.prepared" => {
            let seed = c["seed"].as_u64().unwrap_or(1);
            let seq: Vec<usize> = c["seq"].as_array().unwrap().iter().map(|x| x.as_u64().unwrap() as usize).collect();
            c03_prepared_seq(&v2("Q"), &c03_p_alphabet(seed), &seq).map(|_| ())
        }
        "c11.pair" => c11_pair(&gtv(&c["g"])?, &gtv(&c["h"])?).map(|_| ()),
        "c11.unary" => c11_unary(&gt_build(&gn(c, "k"), &gs(c, "how"))?).map(|_| ()),
        "c11.laws" => c11_laws(&gtv(&c["g"])?, &gtv(&c["h"])?, &gn(c, "a"), &gn(c, "b")).map(|_| ()),
        "c11.smallexp" => c11_smallexp(&gtv(&c["g"])?, c["e"].as_u64().unwrap()).map(|_| ()),
        o => panic!("unknown op {}", o),
    }
}
#[allow(dead_code)]
fn unused() {
    let _ = dlogs(Tier::Quick, 1);
}

//! C12 — Fq2 arithmetic is arithmetic in Fq[u]/(u^2+2).

use crate::api::{fq2, fq2v, lib};
use mccore::alpha::{dedup, fp_small, rinv, rmont, two};
use mccore::{ensure, gs, jn, Bad, Meta, Run, Spec, Tally};
use num_traits::{One, Zero};
use refmodel::{consts, ec_add, f2_bytes, mulm, n, negm, q, F2, Fld, Pt, N};
use serde_json::{json, Value};
use sm9_core::{Fq2, Group, G2};

/// the sub-alphabet S of FP(q) whose pairs form FQ2
pub fn comp_alpha(count: usize, seed: u64) -> Vec<N> {
    comp_alpha_x(count, seed, 11)
}
pub fn comp_alpha_x(count: usize, seed: u64, top_band: u64) -> Vec<N> {
    let p = q();
    let ri = rinv(p);
    let mut v = vec![
        n(0),
        n(1),
        p - n(1),
        n(2),
        (p - n(1)) / n(2),
        (p + n(1)) / n(2),
        negm(&ri, p),                                   // stored limbs p-1
        mulm(&(two(256) - n(1) - p), &ri, p),           // stored limbs all ones (mod p)
        ri.clone(),                                     // stored limbs 1
        p - n(2),
        n(3),
        p - n(3),
        mulm(&((p - n(1)) / n(2)), &ri, p),             // stored (q-1)/2: its double is exactly q-1
        mulm(&((p + n(1)) / n(2)), &ri, p),             // stored (q+1)/2: its double is exactly q+1
    ];
    v.extend(fp_small(p, count, seed));
    let mut v = dedup(v);
    v.truncate(count);
    // elements whose STORED (Montgomery) value is q-1-i: products of such values put the lazy-reduction
    // accumulator into its top band, where the extra carry limb is set AND the low part still exceeds q
    // (two subtractions needed) - a band that random and "small" operands never reach
    for i in 1..=top_band {
        v.push(mulm(&(p - n(1) - n(i)), &ri, p));
    }
    dedup(v)
}
pub fn fq2_alpha(count: usize, seed: u64) -> Vec<F2> {
    fq2_alpha_x(count, seed, 11)
}
pub fn fq2_alpha_x(count: usize, seed: u64, top_band: u64) -> Vec<F2> {
    let s = comp_alpha_x(count, seed, top_band);
    let mut out = vec![];
    for a in &s {
        for b in &s {
            out.push(F2 { a: a.clone(), b: b.clone() });
        }
    }
    out
}
fn j2(x: &F2) -> Value {
    json!({"re": jn(&x.a), "im": jn(&x.b)})
}
fn g2j(v: &Value) -> F2 {
    crate::api::gf2(v)
}
fn chk(what: &str, got: &Fq2, want: &F2, x: &F2, y: &F2) -> Result<(), Bad> {
    let g = fq2v(got);
    ensure!(&g == want, "wrong-value", "Fq2 {}: x={:x?} y={:x?} library={:x?} model={:x?}", what, x, y, g, want);
    Ok(())
}
pub fn pair_case(lx: Fq2, ly: Fq2, x: &F2, y: &F2) -> Result<(), Bad> {
    chk("x+y", &lib("add", || lx + ly)?, &x.add(y), x, y)?;
    chk("x-y", &lib("sub", || lx - ly)?, &x.sub(y), x, y)?;
    let m = lib("mul", || lx * ly)?;
    chk("x*y", &m, &x.mul(y), x, y)?;
    let m2 = lib("mul", || ly * lx)?;
    ensure!(m == m2, "commutativity", "Fq2 x*y != y*x for x={:x?} y={:x?}", x, y);
    let eq = lib("==", || lx == ly)?;
    ensure!(eq == (x == y), "eq", "Fq2 (x==y) = {} for x={:x?} y={:x?}", eq, x, y);
    Ok(())
}
pub fn forms_case(lx: Fq2, ly: Fq2, x: &F2, y: &F2) -> Result<u32, Bad> {
    let mut k = 0;
    macro_rules! forms {
        ($op:tt, $opa:tt, $want:expr, $nm:expr) => {{
            let want: F2 = $want;
            let rs: Vec<(&str, Fq2)> = lib("operator forms", || {
                let mut v = vec![("a op b", lx $op ly), ("&a op b", &lx $op ly), ("a op &b", lx $op &ly), ("&a op &b", &lx $op &ly)];
                let mut t = lx; t $opa ly; v.push(("a op= b", t));
                let mut t = lx; t $opa &ly; v.push(("a op= &b", t));
                v
            })?;
            for (nm, g) in rs { chk(&format!("[{}] with op '{}'", nm, $nm), &g, &want, x, y)?; k += 1; }
        }};
    }
    forms!(+, +=, x.add(y), "+");
    forms!(-, -=, x.sub(y), "-");
    forms!(*, *=, x.mul(y), "*");
    Ok(k)
}
pub fn unary_case(lx: Fq2, x: &F2) -> Result<u32, Bad> {
    let z = F2::zero();
    chk("-x", &lib("neg", || -lx)?, &x.neg(), x, &z)?;
    chk("-&x", &lib("neg", || -&lx)?, &x.neg(), x, &z)?;
    let re = lib("real", || crate::api::fqv(&lx.real()))?;
    let im = lib("imaginary", || crate::api::fqv(&lx.imaginary()))?;
    ensure!(re == x.a && im == x.b, "parts", "Fq2 real/imaginary of {:x?} = ({:x}, {:x})", x, re, im);
    let ev = lib("is_even", || lx.is_even())?;
    ensure!(ev == !x.a.bit(0), "parity", "Fq2 is_even({:x?}) = {} (parity of the real part expected)", x, ev);
    let iz = lib("is_zero", || lx.is_zero())?;
    ensure!(iz == x.is_zero(), "is_zero", "Fq2 is_zero({:x?}) = {}", x, iz);
    let enc = lib("to_slice", || lx.to_slice())?;
    ensure!(enc.to_vec() == f2_bytes(x), "encoding", "Fq2 to_slice({:x?}) = {} (imaginary part first expected)", x, refmodel::hex(&enc));
    let enc2: [u8; 64] = lib("into", || lx.into())?;
    ensure!(enc2 == enc, "encoding", "Fq2 Into<[u8;64]> differs from to_slice for {:x?}", x);
    let back = lib("from_slice", || Fq2::from_slice(&enc))?;
    ensure!(back == Some(lx), "roundtrip", "Fq2 from_slice(to_slice(x)) != x for {:x?}", x);
    let back2 = lib("try_from", || Fq2::try_from(&enc[..]).ok())?;
    ensure!(back2 == Some(lx), "roundtrip", "Fq2 TryFrom(to_slice(x)) != x for {:x?}", x);
    let one = lib("one", Fq2::one)?;
    chk("x*one", &lib("mul", || lx * one)?, x, x, &F2::one())?;
    chk("x*x", &lib("mul", || lx * lx)?, &x.sq(), x, x)?;
    Ok(12)
}
pub fn triple_case(lx: Fq2, ly: Fq2, lz: Fq2, x: &F2, y: &F2, z: &F2) -> Result<u32, Bad> {
    let l = lib("mul", || (lx * ly) * lz)?;
    let r = lib("mul", || lx * (ly * lz))?;
    ensure!(l == r, "associativity", "Fq2 (xy)z != x(yz) for {:x?} {:x?} {:x?}", x, y, z);
    chk("(xy)z", &l, &x.mul(y).mul(z), x, y)?;
    let d1 = lib("mul", || lx * (ly + lz))?;
    let d2 = lib("mul", || lx * ly + lx * lz)?;
    ensure!(d1 == d2, "distributivity", "Fq2 x(y+z) != xy+xz for {:x?} {:x?} {:x?}", x, y, z);
    chk("x(y+z)", &d1, &x.mul(&y.add(z)), x, y)?;
    Ok(4)
}
/// squaring agreement through the public API: the point (s^2 x, s^3 y, s) must equal the affine
/// point, normalise to it and double to the reference double; this drives the internal `squared`
/// (inside ==, to_affine, double) with the operand s
pub fn square_case(s: &F2) -> Result<u32, Bad> {
    match square_case_raw(s) {
        Err(b) if b.class == "squaring" && squaring_is_exonerated(s) => {
            // the point code gave a wrong result although Fq2::squared / * / inverse (observed directly through the
            // hook seam) are right on every operand involved: the cause is the point code's control flow
            // (C04 / C15), not the agreement of multiplication and squaring that C12 states
            crate::api::SKIPPED.lock().unwrap().push(format!("c12.squaring-via-G2 s={:x?}: point code wrong, Fq2 squaring right", s));
            Ok(0)
        }
        r => r,
    }
}
#[cfg(feature = "hooks")]
fn squaring_is_exonerated(s: &F2) -> bool {
    let g = &consts().g2;
    let (x, y) = g.xy().unwrap();
    let s2 = s.sq();
    let s3 = s2.mul(s);
    [s.clone(), s2.clone(), s3.clone(), s2.mul(x), s3.mul(y), x.clone(), y.clone(), F2::one()].iter().all(|v| crate::c17::c12_direct_case(v).is_ok())
}
#[cfg(not(feature = "hooks"))]
fn squaring_is_exonerated(_s: &F2) -> bool {
    false
}
fn square_case_raw(s: &F2) -> Result<u32, Bad> {
    if s.is_zero() {
        return Ok(0);
    }
    let g = &consts().g2;
    let (x, y) = g.xy().unwrap();
    let s2 = s.sq();
    let s3 = s2.mul(s);
    let aff = lib("new", || G2::new(fq2(x), fq2(y), Fq2::one()))?;
    let sc = lib("new", || G2::new(fq2(&s2.mul(x)), fq2(&s3.mul(y)), fq2(s)))?;
    let _ = aff;
    let mut nm = sc;
    lib("normalize", || nm.normalize())?;
    let (nx, ny, nz) = (fq2v(&nm.x()), fq2v(&nm.y()), fq2v(&nm.z()));
    ensure!(&nx == x && &ny == y && nz == F2::one(), "squaring", "normalize of the s-rescaled generator gives ({:x?},{:x?},{:x?}) for s={:x?}", nx, ny, nz, s);
    let dbl = lib("add", || sc + sc)?;
    let want = ec_add(g, g);
    let got = crate::api::alpha::<G2>(&dbl);
    ensure!(got == want, "squaring", "doubling the s-rescaled generator gives {:x?}, expected {:x?} (s={:x?})", got, want, s);
    Ok(3)
}

const U4_CLASSES: [&str; 8] = [
    "c0:u4=0,low<q", "c0:u4=0,low>=q", "c0:u4=1,one-subtraction", "c0:u4=1,two-subtractions",
    "c1:u4=0,low<q", "c1:u4=0,low>=q", "c1:u4=1,one-subtraction", "c1:u4=1,two-subtractions",
];
/// class of one lazy-reduction accumulator: u = (S + m q) / 2^256 as a 5-limb value; u4 = its top limb,
/// and how many subtractions of q the final reduction needs
pub fn acc_class(p: &N, pinv_neg: &N, s: N) -> u32 {
    let t256 = two(256);
    let m = (&s * pinv_neg) % &t256;
    let u: N = (&s + &m * p) >> 256;
    let u4: N = &u >> 256;
    let low: N = &u % &t256;
    if u4.is_zero() {
        if &low < p { 0 } else { 1 }
    } else {
        // true value low + 2^256 - k q must land in [0, q)
        if &(&low + &t256) - p < *p { 2 } else { 3 }
    }
}
fn u4_classes(p: &N, pinv_neg: &N, rm: &N, x: &F2, y: &F2) -> u32 {
    let raw = |v: &N| mulm(v, rm, p);
    let a0 = raw(&x.a);
    let a1 = raw(&x.b);
    let a1m2 = raw(&negm(&((n(2) * &x.b) % p), p));
    let b0 = raw(&y.a);
    let b1 = raw(&y.b);
    let c0 = acc_class(p, pinv_neg, &a0 * &b0 + &a1m2 * &b1);
    let c1 = acc_class(p, pinv_neg, &a0 * &b1 + &a1 * &b0);
    (1 << c0) | (1 << (4 + c1))
}

pub fn run(run: &Run) {
    let p = q().clone();
    let cnt = run.tier.pick(14, 80);
    let al = fq2_alpha(cnt, run.seed);
    let lv: Vec<Fq2> = al.iter().map(fq2).collect();
    let nn = al.len() as u64;
    let t256 = two(256);
    let pinv = p.modpow(&(two(255) - n(1)), &t256);
    assert!(((&pinv * &p) % &t256).is_one());
    let pinv_neg = &t256 - &pinv;
    let rm = rmont(&p);
    run.note("alphabet_FQ2", json!({"components": cnt, "elements": nn}));
    let classes_on = nn <= 1000;
    run.grid(
        Spec { name: "c12.pair", n: nn * nn, classes: &U4_CLASSES, required: if classes_on { &U4_CLASSES } else { &[] } },
        |i| {
            let (a, b) = ((i / nn) as usize, (i % nn) as usize);
            pair_case(lv[a], lv[b], &al[a], &al[b])?;
            let c = if classes_on { u4_classes(&p, &pinv_neg, &rm, &al[a], &al[b]) } else { 0 };
            Ok(Tally::new(5, !(al[a].is_zero() && al[b].is_zero()), c))
        },
        |i| json!({"op": "c12.pair", "x": j2(&al[(i / nn) as usize]), "y": j2(&al[(i % nn) as usize])}),
    );
    if !classes_on {
        let al2 = fq2_alpha(14, run.seed);
        let lv2: Vec<Fq2> = al2.iter().map(fq2).collect();
        let n2 = al2.len() as u64;
        run.grid(
            Spec { name: "c12.pair-classes", n: n2 * n2, classes: &U4_CLASSES, required: &U4_CLASSES },
            |i| {
                let (a, b) = ((i / n2) as usize, (i % n2) as usize);
                pair_case(lv2[a], lv2[b], &al2[a], &al2[b])?;
                Ok(Tally::new(5, true, u4_classes(&p, &pinv_neg, &rm, &al2[a], &al2[b])))
            },
            |i| json!({"op": "c12.pair", "x": j2(&al2[(i / n2) as usize]), "y": j2(&al2[(i % n2) as usize])}),
        );
    }
    let fal = fq2_alpha_x(run.tier.pick(6, 10), run.seed, 1);
    let flv: Vec<Fq2> = fal.iter().map(fq2).collect();
    let fnn = fal.len() as u64;
    run.grid(
        Spec { name: "c12.forms", n: fnn * fnn, classes: &[], required: &[] },
        |i| {
            let (a, b) = ((i / fnn) as usize, (i % fnn) as usize);
            let k = forms_case(flv[a], flv[b], &fal[a], &fal[b])?;
            Ok(Tally::new(k, true, 0))
        },
        |i| json!({"op": "c12.forms", "x": j2(&fal[(i / fnn) as usize]), "y": j2(&fal[(i % fnn) as usize])}),
    );
    run.grid(
        Spec { name: "c12.unary", n: nn, classes: &[], required: &[] },
        |i| {
            let k = unary_case(lv[i as usize], &al[i as usize])?;
            Ok(Tally::new(k, !al[i as usize].is_zero(), 0))
        },
        |i| json!({"op": "c12.unary", "x": j2(&al[i as usize])}),
    );
    let tal = fq2_alpha_x(run.tier.pick(5, 8), run.seed, 2);
    let tlv: Vec<Fq2> = tal.iter().map(fq2).collect();
    let tn = tal.len() as u64;
    run.grid(
        Spec { name: "c12.triple", n: tn * tn * tn, classes: &[], required: &[] },
        |i| {
            let ix = mccore::unrank(i, &[tn, tn, tn]);
            let k = triple_case(tlv[ix[0]], tlv[ix[1]], tlv[ix[2]], &tal[ix[0]], &tal[ix[1]], &tal[ix[2]])?;
            Ok(Tally::new(k, true, 0))
        },
        |i| {
            let ix = mccore::unrank(i, &[tn, tn, tn]);
            json!({"op": "c12.triple", "x": j2(&tal[ix[0]]), "y": j2(&tal[ix[1]]), "z": j2(&tal[ix[2]])})
        },
    );
    run.grid(
        Spec { name: "c12.squaring-via-G2", n: nn, classes: &[], required: &[] },
        |i| {
            let k = square_case(&al[i as usize])?;
            Ok(Tally::new(k, k > 0, 0))
        },
        |i| json!({"op": "c12.square", "s": j2(&al[i as usize])}),
    );
    #[cfg(feature = "hooks")]
    crate::c17::c12_direct_squaring(run, &al, &lv);
}
pub fn meta(run: &Run) -> Meta {
    Meta {
        rule: "grid: every ordered pair over FQ2 = S x S (S = special / Montgomery-extreme / generic members of FP(q)) for + - * == \
               and commutativity; operator forms and associativity/distributivity triples on sub-alphabets; every unary observation on \
               every element; squaring agreement through G2::new(s^2 x, s^3 y, s) for every s; model-side histogram of the lazy-reduction \
               carry limb u4 (both reachable classes required). Alphabets are de-duplicated; a case is non-trivial unless all operands are 0."
            .into(),
        engine: "sm9mc-grid".into(),
        bounds: json!({"components": run.tier.pick(14, 80)}),
        assumptions: vec![],
    }
}
pub fn replay(c: &Value) -> Result<(), Bad> {
    match gs(c, "op").as_str() {
        "c12.pair" => {
            let (x, y) = (g2j(&c["x"]), g2j(&c["y"]));
            pair_case(fq2(&x), fq2(&y), &x, &y)
        }
        "c12.forms" => {
            let (x, y) = (g2j(&c["x"]), g2j(&c["y"]));
            forms_case(fq2(&x), fq2(&y), &x, &y).map(|_| ())
        }
        "c12.unary" => {
            let x = g2j(&c["x"]);
            unary_case(fq2(&x), &x).map(|_| ())
        }
        "c12.triple" => {
            let (x, y, z) = (g2j(&c["x"]), g2j(&c["y"]), g2j(&c["z"]));
            triple_case(fq2(&x), fq2(&y), fq2(&z), &x, &y, &z).map(|_| ())
        }
        "c12.square" => square_case(&g2j(&c["s"])).map(|_| ()),
        #[cfg(feature = "hooks")]
        "c12.squared-direct" => crate::c17::c12_direct_replay(c),
        o => panic!("unknown op {}", o),
    }
}
#[allow(dead_code)]
fn unused(_: Pt<F2>) {}

//! C07 — field elements always stay canonical; equality is value equality (explicit-state BFS over
//! two-register machines for Fr, Fq and Fq2).

use crate::api::{fq2v, lib};
use crate::fp::FpApi;
use mccore::alpha::{generic, rinv, two};
use mccore::{ensure, Bad, Meta, Run, Tier};
use num_traits::{One, Zero};
use rand::RngCore;
use refmodel::{addm, be, be32, from_be, invm, mulm, n, negm, q, sqrt_mod, subm, F2, Fld, N};
use serde_json::{json, Value};
use sm9_core::{Fq, Fq2, Fr};

// ---------------------------------------------------------------------------------------------
// scripted RNG: the environment's answers are decided by the harness
// ---------------------------------------------------------------------------------------------
pub struct Script {
    words: Vec<u64>,
    pos: usize,
}
impl Script {
    pub fn named(name: &str, p: &N) -> Script {
        // a 512-bit value written as 8 little-endian limbs ("le") or reversed ("be"), repeated forever
        let (kind, order) = name.split_once('/').unwrap_or((name, "le"));
        let t512 = two(512);
        let v: N = match kind {
            "zero" => N::zero(),
            "ones" => &t512 - n(1),
            "p" => p.clone(),
            "p-1" => p - n(1),
            "p+1" => p + n(1),
            "2p" => p * n(2),
            "top-multiple" => ((&t512 - n(1)) / p) * p,
            "top-multiple-1" => ((&t512 - n(1)) / p) * p - n(1),
            "2^256-1" => two(256) - n(1),
            "2^256" => two(256),
            "high-p" => p << 256,
            "alt" => refmodel::nhex(&"a5".repeat(64)),
            o => panic!("unknown script {}", o),
        };
        let mut words: Vec<u64> = v.to_u64_digits();
        words.resize(8, 0);
        if order == "be" {
            words.reverse();
        }
        Script { words, pos: 0 }
    }
    pub const NAMES: [&'static str; 16] = [
        "zero", "ones", "p", "p-1", "p+1", "2p", "top-multiple", "top-multiple-1", "2^256-1", "2^256", "high-p", "alt", "p/be", "p-1/be",
        "top-multiple/be", "high-p/be",
    ];
}
impl RngCore for Script {
    fn next_u32(&mut self) -> u32 {
        self.next_u64() as u32
    }
    fn next_u64(&mut self) -> u64 {
        let w = self.words[self.pos % self.words.len()];
        self.pos += 1;
        w
    }
    fn fill_bytes(&mut self, dest: &mut [u8]) {
        for ch in dest.chunks_mut(8) {
            let w = self.next_u64().to_le_bytes();
            let l = ch.len();
            ch.copy_from_slice(&w[..l]);
        }
    }
    fn try_fill_bytes(&mut self, dest: &mut [u8]) -> Result<(), rand::Error> {
        self.fill_bytes(dest);
        Ok(())
    }
}

// ---------------------------------------------------------------------------------------------
// the F_p machines
// ---------------------------------------------------------------------------------------------
#[derive(Clone, Debug, PartialEq)]
pub enum Op {
    Add,
    Sub,
    Mul,
    Neg,
    Inv,
    Pow,
    Swap,
    Const(N),
    RtBytes,
    RtStr,
    Sqrt,
    SetBit(usize, bool),
    Hash(Vec<u8>),
    HashSelf,
    Random(String),
    Wide(Vec<u8>),
    /// x = z-coordinate of G1::new(1, x, 1) + G1::new(1, x, 1): a field value produced by the arithmetic inside
    /// point addition, reached through the public constructor with arbitrary coordinates and the coordinate accessor
    /// (its VALUE is formula dependent and not checked; it must be fully reduced)
    DoubleViaG1,
}
impl Op {
    pub fn label(&self) -> String {
        match self {
            Op::Add => "x=x+y".into(),
            Op::Sub => "x=x-y".into(),
            Op::Mul => "x=x*y".into(),
            Op::Neg => "x=-x".into(),
            Op::Inv => "x=inverse(x)".into(),
            Op::Pow => "x=x^y".into(),
            Op::Swap => "swap".into(),
            Op::Const(c) => format!("x=const:{:x}", c),
            Op::RtBytes => "x=from_slice(to_slice(x))".into(),
            Op::RtStr => "x=from_str(decimal(x))".into(),
            Op::Sqrt => "x=sqrt(x)".into(),
            Op::SetBit(i, v) => format!("x.set_bit:{}:{}", i, *v as u8),
            Op::Hash(b) => format!("x=from_hash:{}", refmodel::hex(b)),
            Op::HashSelf => "x=from_hash(to_slice(x))".into(),
            Op::Random(s) => format!("x=random:{}", s),
            Op::Wide(b) => format!("x=from_slice:{}", refmodel::hex(b)),
            Op::DoubleViaG1 => "x=(G1::new(1,x,1)+same).z()".into(),
        }
    }
    pub fn parse(l: &str) -> Op {
        match l {
            "x=x+y" => Op::Add,
            "x=x-y" => Op::Sub,
            "x=x*y" => Op::Mul,
            "x=-x" => Op::Neg,
            "x=inverse(x)" => Op::Inv,
            "x=x^y" => Op::Pow,
            "swap" => Op::Swap,
            "x=from_slice(to_slice(x))" => Op::RtBytes,
            "x=from_str(decimal(x))" => Op::RtStr,
            "x=sqrt(x)" => Op::Sqrt,
            "x=from_hash(to_slice(x))" => Op::HashSelf,
            "x=(G1::new(1,x,1)+same).z()" => Op::DoubleViaG1,
            _ => {
                if let Some(c) = l.strip_prefix("x=const:") {
                    Op::Const(refmodel::nhex(c))
                } else if let Some(rest) = l.strip_prefix("x.set_bit:") {
                    let (i, v) = rest.split_once(':').unwrap();
                    Op::SetBit(i.parse().unwrap(), v == "1")
                } else if let Some(h) = l.strip_prefix("x=from_hash:") {
                    Op::Hash(refmodel::unhex(h))
                } else if let Some(s) = l.strip_prefix("x=random:") {
                    Op::Random(s.to_string())
                } else if let Some(h) = l.strip_prefix("x=from_slice:") {
                    Op::Wide(refmodel::unhex(h))
                } else {
                    panic!("unknown op label {}", l)
                }
            }
        }
    }
}

#[derive(Clone)]
pub struct St<F: FpApi> {
    x: F,
    y: F,
    mx: N,
    my: N,
}

pub trait FpMachine: FpApi {
    fn set_bit_(&mut self, _i: usize, _v: bool) -> bool {
        false
    }
    fn from_hash_(_b: &[u8]) -> Option<Option<Self>> {
        None
    }
    fn random_(_s: &mut Script) -> Option<Self> {
        None
    }
    fn sqrt_(&self) -> Option<Option<Self>> {
        None
    }
    fn double_via_group(&self) -> Option<Self> {
        None
    }
}
impl FpMachine for Fr {
    fn set_bit_(&mut self, i: usize, v: bool) -> bool {
        self.set_bit(i, v);
        true
    }
    fn from_hash_(b: &[u8]) -> Option<Option<Self>> {
        Some(Fr::from_hash(b))
    }
    fn random_(s: &mut Script) -> Option<Self> {
        Some(Fr::random(s))
    }
}
impl FpMachine for Fq {
    fn sqrt_(&self) -> Option<Option<Self>> {
        Some(self.sqrt())
    }
    fn double_via_group(&self) -> Option<Self> {
        let p = sm9_core::G1::new(Fq::one(), *self, Fq::one());
        Some((p + p).z())
    }
}

fn canon<F: FpApi>(x: &F) -> (Vec<u8>, bool) {
    let b = x.bytes();
    let back = F::from_slice_(&b);
    (b.to_vec(), back == Some(*x) && &from_be(&b) < F::modulus())
}
fn key<F: FpApi>(s: &St<F>) -> Vec<u8> {
    let (bx, cx) = canon(&s.x);
    let (by, cy) = canon(&s.y);
    let mut k = bx;
    k.push(cx as u8);
    k.extend(by);
    k.push(cy as u8);
    // the model component belongs to the state (never merge a state whose model value differs)
    k.extend(be32(&s.mx));
    k.extend(be32(&s.my));
    k
}
fn inv_fp<F: FpApi>(s: &St<F>) -> Result<(), Bad> {
    for (nm, v, m) in [("x", &s.x, &s.mx), ("y", &s.y, &s.my)] {
        let (b, c) = lib("to_slice/from_slice", || canon(v))?;
        let enc = from_be(&b);
        ensure!(&enc < F::modulus(), "non-canonical", "{} register {}: encoding {:x} is not below the modulus", F::NAME, nm, enc);
        ensure!(c, "non-canonical", "{} register {} is not fully reduced: from_slice(to_slice(v)) != v (encoding {:x})", F::NAME, nm, enc);
        let iz = lib("is_zero", || v.is_zero_())?;
        ensure!(iz == enc.is_zero(), "is_zero", "{} register {}: is_zero = {} but the encoding is {:x}", F::NAME, nm, iz, enc);
        ensure!(&enc == m, "wrong-value", "{} register {} encodes {:x} but the model value is {:x}", F::NAME, nm, enc, m);
    }
    let eq = lib("==", || s.x == s.y)?;
    let eq2 = lib("==", || s.y == s.x)?;
    let same = s.x.bytes() == s.y.bytes();
    ensure!(eq == same && eq2 == same, "eq", "{} (x == y) = {} / (y == x) = {} but encodings equal = {}", F::NAME, eq, eq2, same);
    Ok(())
}
fn step_fp<F: FpMachine>(s: &St<F>, op: &Op) -> Option<Result<St<F>, Bad>> {
    let p = F::modulus();
    // model-side enabledness
    match op {
        Op::Inv if s.mx.is_zero() => return None,
        Op::Sqrt if sqrt_mod(&s.mx, p).is_none() => return None,
        _ => {}
    }
    let mut t = s.clone();
    let r: Result<(), Bad> = (|| {
        match op {
            Op::Add => {
                t.x = lib("add", || s.x + s.y)?;
                t.mx = addm(&s.mx, &s.my, p);
            }
            Op::Sub => {
                t.x = lib("sub", || s.x - s.y)?;
                t.mx = subm(&s.mx, &s.my, p);
            }
            Op::Mul => {
                t.x = lib("mul", || s.x * s.y)?;
                t.mx = mulm(&s.mx, &s.my, p);
            }
            Op::Neg => {
                t.x = lib("neg", || -s.x)?;
                t.mx = negm(&s.mx, p);
            }
            Op::Inv => {
                let got = lib("inverse", || s.x.inv())?;
                match got {
                    Some(g) => t.x = g,
                    None => return mccore::bad("inverse-none", format!("{} inverse of the non-zero value {:x} is None", F::NAME, s.mx)),
                }
                t.mx = invm(&s.mx, p).unwrap();
            }
            Op::Pow => {
                t.x = lib("pow", || s.x.pow_(&s.y))?;
                t.mx = s.mx.modpow(&s.my, p);
            }
            Op::Swap => {
                std::mem::swap(&mut t.x, &mut t.y);
                std::mem::swap(&mut t.mx, &mut t.my);
            }
            Op::Const(c) => {
                t.x = lib("from_slice", || F::from_n(c))?;
                t.mx = c.clone();
            }
            Op::RtBytes => {
                let b = lib("to_slice", || s.x.bytes())?;
                match lib("from_slice", || F::from_slice_(&b))? {
                    Some(g) => t.x = g,
                    None => return mccore::bad("roundtrip", format!("{} from_slice(to_slice(x)) is None", F::NAME)),
                }
            }
            Op::RtStr => {
                let dec = s.mx.to_str_radix(10);
                match lib("from_str", || F::from_str_(&dec))? {
                    Ok(g) => t.x = g,
                    Err(e) => return mccore::bad("roundtrip", format!("{} from_str({}) = Err({})", F::NAME, dec, e)),
                }
            }
            Op::Sqrt => {
                let got = lib("sqrt", || s.x.sqrt_())?.expect("sqrt op only in the Fq machine");
                match got {
                    Some(g) => {
                        t.x = g;
                        let gv = from_be(&g.bytes());
                        // soundness of the root is C14's business; here the register just adopts it
                        ensure!(mulm(&gv, &gv, p) == s.mx, "wrong-value", "{} sqrt({:x}) = {:x} which does not square back", F::NAME, s.mx, gv);
                        t.mx = gv;
                    }
                    None => return mccore::bad("sqrt-none", format!("{} sqrt of the square {:x} is None", F::NAME, s.mx)),
                }
            }
            Op::SetBit(i, v) => {
                lib("set_bit", || t.x.set_bit_(*i, *v))?;
                if *i < 256 {
                    t.mx = if *v { (&s.mx | &two(*i)) % p } else if s.mx.bit(*i as u64) { &s.mx - two(*i) } else { s.mx.clone() };
                } else {
                    // a 32-byte value has no such bit: "ignore" and "add 2^i mod r" are both accepted for
                    // setting, clearing must be a no-op (DESIGN.md C07 'N'); the model adopts the outcome
                    let enc = from_be(&t.x.bytes());
                    if *v {
                        let alt = (&s.mx + two(*i)) % p;
                        ensure!(enc == s.mx || enc == alt, "wrong-value", "{} set_bit({}, true) on {:x} gave {:x}", F::NAME, i, s.mx, enc);
                        t.mx = enc % p;
                    }
                }
            }
            Op::Hash(b) => {
                match lib("from_hash", || F::from_hash_(b))?.expect("hash op only in the Fr machine") {
                    Some(g) => t.x = g,
                    None => return mccore::bad("accept-reject", format!("from_hash of {} bytes is None", b.len())),
                }
                t.mx = from_be(b) % (p - n(1)) + n(1);
            }
            Op::HashSelf => {
                let b = be32(&s.mx);
                match lib("from_hash", || F::from_hash_(&b))?.expect("hash op only in the Fr machine") {
                    Some(g) => t.x = g,
                    None => return mccore::bad("accept-reject", "from_hash of 32 bytes is None".into()),
                }
                t.mx = &s.mx % (p - n(1)) + n(1);
            }
            Op::Random(name) => {
                let mut sc = Script::named(name, p);
                t.x = lib("random", || F::random_(&mut sc))?.expect("random op only in the Fr machine");
                // the mapping stream -> value is not part of the property: the model adopts the value
                t.mx = from_be(&t.x.bytes()) % p;
            }
            Op::DoubleViaG1 => {
                // WHICH value the z coordinate of a sum holds is not specified by any property (it depends on the
                // addition formulas); the property only demands that a field value obtained this way is fully reduced.
                // The model adopts the value, the state invariant checks canonicity / == / is_zero.
                t.x = lib("G1 doubling", || s.x.double_via_group())?.expect("only in the Fq machine");
                t.mx = from_be(&t.x.bytes()) % p;
            }
            Op::Wide(b) => {
                match lib("from_slice", || F::from_slice_(b))? {
                    Some(g) => t.x = g,
                    None => return mccore::bad("accept-reject", format!("from_slice of {} bytes is None", b.len())),
                }
                t.mx = from_be(b) % p;
            }
        }
        Ok(())
    })();
    Some(r.map(|_| t))
}

fn menu_fp<F: FpMachine>(tier: Tier, seed: u64, bits: &[usize], full: bool) -> Vec<Op> {
    let p = F::modulus();
    let ri = rinv(p);
    let mut ops = vec![Op::Add, Op::Sub, Op::Mul, Op::Neg, Op::Inv, Op::Pow, Op::Swap, Op::RtBytes];
    let mut consts = vec![n(0), n(1), n(2), p - n(1), (p - n(1)) / n(2), ri.clone(), negm(&ri, p)];
    consts.push(generic(p, seed, 0xc07, 1).pop().unwrap());
    consts.push(mulm(&((p - n(1)) / n(2)), &ri, p)); // stored (p-1)/2
    consts.push(mulm(&((p + n(1)) / n(2)), &ri, p)); // stored (p+1)/2
    if full {
        // values whose stored limbs / canonical value have bit 254 or 255 set in interesting ways
        consts.push(two(255) % p);
        consts.push(mulm(&(two(255)), &ri, p));
        consts.push(mulm(&(p - n(2)), &ri, p));
    }
    for c in mccore::alpha::dedup(consts) {
        ops.push(Op::Const(c));
    }
    if full {
        ops.push(Op::RtStr);
        // a 64-byte and a 33-byte conversion (the 512-bit remainder path)
        ops.push(Op::Wide(be(&(((two(512) - n(1)) / p) * p + n(1)), 64)));
        ops.push(Op::Wide(be(&(p + n(1)), 33)));
    }
    if F::NAME == "Fq" {
        ops.push(Op::Sqrt);
        ops.push(Op::DoubleViaG1);
    }
    if F::NAME == "Fr" {
        for i in bits {
            ops.push(Op::SetBit(*i, true));
            ops.push(Op::SetBit(*i, false));
        }
        ops.push(Op::HashSelf);
        ops.push(Op::Hash(vec![]));
        ops.push(Op::Hash(be(&(p - n(1)), 32)));
        ops.push(Op::Hash(vec![0xFF; 64]));
        let scripts: &[&str] = if full || tier == Tier::Quick { &Script::NAMES } else { &Script::NAMES[..4] };
        for s in scripts {
            ops.push(Op::Random(s.to_string()));
        }
    }
    ops
}

fn machine_fp<F: FpMachine>(run: &Run, name: &str, ops: Vec<Op>, depth: usize) {
    let labels: Vec<String> = ops.iter().map(|o| o.label()).collect();
    let init = vec![St::<F> { x: F::zero_(), y: F::one_(), mx: N::zero(), my: N::one() }];
    let out = run.bfs(name, &labels, init, depth, |s| key(s), |s, i| step_fp::<F>(s, &ops[i]), |s| inv_fp::<F>(s));
    // representation spread: distinct concrete register contents per abstract value
    let mut by_val: std::collections::HashMap<Vec<u8>, std::collections::HashSet<bool>> = Default::default();
    for s in &out.states {
        let (b, c) = canon(&s.x);
        by_val.entry(b).or_default().insert(c);
    }
    run.note(
        &format!("{}_summary", name),
        json!({"distinct_values_of_x": by_val.len(), "values_seen_non_canonical": by_val.values().filter(|s| s.contains(&false)).count(),
               "ops": labels.len(), "depth_completed": out.completed_depth}),
    );
}

// ---------------------------------------------------------------------------------------------
// the Fq2 machine
// ---------------------------------------------------------------------------------------------
#[derive(Clone)]
pub struct St2 {
    x: Fq2,
    y: Fq2,
    mx: F2,
    my: F2,
}
#[derive(Clone, Debug)]
pub enum Op2 {
    Add,
    Sub,
    Mul,
    Neg,
    Swap,
    Const(F2),
    RtBytes,
    Sqrt,
    NewRealXImagY,
    NewImagXRealX,
    /// x = z-coordinate of G2::new(1, x, 1) + same (value formula dependent and unchecked; must be fully reduced)
    DoubleViaG2,
}
impl Op2 {
    pub fn label(&self) -> String {
        match self {
            Op2::Add => "x=x+y".into(),
            Op2::Sub => "x=x-y".into(),
            Op2::Mul => "x=x*y".into(),
            Op2::Neg => "x=-x".into(),
            Op2::Swap => "swap".into(),
            Op2::Const(c) => format!("x=const:{:x}:{:x}", c.a, c.b),
            Op2::RtBytes => "x=from_slice(to_slice(x))".into(),
            Op2::Sqrt => "x=sqrt(x)".into(),
            Op2::NewRealXImagY => "x=new(real(x),imaginary(y))".into(),
            Op2::NewImagXRealX => "x=new(imaginary(x),real(x))".into(),
            Op2::DoubleViaG2 => "x=(G2::new(1,x,1)+same).z()".into(),
        }
    }
    pub fn parse(l: &str) -> Op2 {
        match l {
            "x=x+y" => Op2::Add,
            "x=x-y" => Op2::Sub,
            "x=x*y" => Op2::Mul,
            "x=-x" => Op2::Neg,
            "swap" => Op2::Swap,
            "x=from_slice(to_slice(x))" => Op2::RtBytes,
            "x=sqrt(x)" => Op2::Sqrt,
            "x=new(real(x),imaginary(y))" => Op2::NewRealXImagY,
            "x=new(imaginary(x),real(x))" => Op2::NewImagXRealX,
            "x=(G2::new(1,x,1)+same).z()" => Op2::DoubleViaG2,
            _ => {
                let c = l.strip_prefix("x=const:").unwrap_or_else(|| panic!("unknown op label {}", l));
                let (a, b) = c.split_once(':').unwrap();
                Op2::Const(F2 { a: refmodel::nhex(a), b: refmodel::nhex(b) })
            }
        }
    }
}
fn canon2(x: &Fq2) -> (Vec<u8>, bool) {
    let (br, cr) = canon(&x.real());
    let (bi, ci) = canon(&x.imaginary());
    let mut b = bi;
    b.extend(br);
    (b, cr && ci)
}
fn key2(s: &St2) -> Vec<u8> {
    let (bx, cx) = canon2(&s.x);
    let (by, cy) = canon2(&s.y);
    let mut k = bx;
    k.push(cx as u8);
    k.extend(by);
    k.push(cy as u8);
    k.extend(refmodel::f2_bytes(&s.mx));
    k.extend(refmodel::f2_bytes(&s.my));
    k
}
fn inv2(s: &St2) -> Result<(), Bad> {
    for (nm, v, m) in [("x", &s.x, &s.mx), ("y", &s.y, &s.my)] {
        let (b, c) = lib("to_slice", || canon2(v))?;
        ensure!(c, "non-canonical", "Fq2 register {} has a component that is not fully reduced (encoding {})", nm, refmodel::hex(&b));
        let enc = lib("to_slice", || v.to_slice())?;
        ensure!(enc.to_vec() == b, "encoding", "Fq2 register {}: to_slice {} differs from imaginary||real {}", nm, refmodel::hex(&enc), refmodel::hex(&b));
        ensure!(enc.to_vec() == refmodel::f2_bytes(m), "wrong-value", "Fq2 register {} encodes {} but the model value is {:?}", nm, refmodel::hex(&enc), m);
        let iz = lib("is_zero", || v.is_zero())?;
        ensure!(iz == m.is_zero(), "is_zero", "Fq2 register {}: is_zero = {} for {:?}", nm, iz, m);
        let back = lib("from_slice", || Fq2::from_slice(&enc))?;
        ensure!(back == Some(*v), "roundtrip", "Fq2 register {}: from_slice(to_slice(v)) != v", nm);
    }
    let eq = lib("==", || s.x == s.y)?;
    let same = s.x.to_slice() == s.y.to_slice();
    ensure!(eq == same, "eq", "Fq2 (x == y) = {} but encodings equal = {}", eq, same);
    Ok(())
}
fn step2(s: &St2, op: &Op2) -> Option<Result<St2, Bad>> {
    let mut t = s.clone();
    if let Op2::Sqrt = op {
        if !s.mx.is_square() {
            return None;
        }
    }
    let r: Result<(), Bad> = (|| {
        match op {
            Op2::Add => {
                t.x = lib("add", || s.x + s.y)?;
                t.mx = s.mx.add(&s.my);
            }
            Op2::Sub => {
                t.x = lib("sub", || s.x - s.y)?;
                t.mx = s.mx.sub(&s.my);
            }
            Op2::Mul => {
                t.x = lib("mul", || s.x * s.y)?;
                t.mx = s.mx.mul(&s.my);
            }
            Op2::Neg => {
                t.x = lib("neg", || -s.x)?;
                t.mx = s.mx.neg();
            }
            Op2::Swap => {
                std::mem::swap(&mut t.x, &mut t.y);
                std::mem::swap(&mut t.mx, &mut t.my);
            }
            Op2::Const(c) => {
                t.x = lib("new", || crate::api::fq2(c))?;
                t.mx = c.clone();
            }
            Op2::RtBytes => {
                let b = lib("to_slice", || s.x.to_slice())?;
                match lib("from_slice", || Fq2::from_slice(&b))? {
                    Some(g) => t.x = g,
                    None => return mccore::bad("roundtrip", "Fq2 from_slice(to_slice(x)) is None".into()),
                }
            }
            Op2::Sqrt => {
                match lib("sqrt", || s.x.sqrt())? {
                    Some(g) => {
                        let gv = fq2v(&g);
                        ensure!(gv.sq() == s.mx, "wrong-value", "Fq2 sqrt({:?}) = {:?} does not square back", s.mx, gv);
                        t.x = g;
                        t.mx = gv;
                    }
                    // completeness of sqrt is C14's property; here the transition is simply absent
                    None => return Err(Bad { class: "skip".into(), msg: String::new() }),
                }
            }
            Op2::NewRealXImagY => {
                t.x = lib("new", || Fq2::new(s.x.real(), s.y.imaginary()))?;
                t.mx = F2 { a: s.mx.a.clone(), b: s.my.b.clone() };
            }
            Op2::NewImagXRealX => {
                t.x = lib("new", || Fq2::new(s.x.imaginary(), s.x.real()))?;
                t.mx = F2 { a: s.mx.b.clone(), b: s.mx.a.clone() };
            }
            Op2::DoubleViaG2 => {
                t.x = lib("G2 doubling", || {
                    let p = sm9_core::G2::new(Fq2::one(), s.x, Fq2::one());
                    (p + p).z()
                })?;
                // as for the Fq machine: the value is formula dependent, only its canonicity is required
                let v = fq2v(&t.x);
                t.mx = F2 { a: v.a % q(), b: v.b % q() };
            }
        }
        Ok(())
    })();
    match r {
        Err(b) if b.class == "skip" => None,
        r => Some(r.map(|_| t)),
    }
}
fn menu2(seed: u64) -> Vec<Op2> {
    let p = q();
    let ri = rinv(p);
    let g = generic(p, seed, 0xc072, 2);
    let mut ops = vec![Op2::Add, Op2::Sub, Op2::Mul, Op2::Neg, Op2::Swap, Op2::RtBytes, Op2::Sqrt, Op2::NewRealXImagY, Op2::NewImagXRealX, Op2::DoubleViaG2];
    let half = mulm(&((p - n(1)) / n(2)), &ri, p); // stored (q-1)/2
    for (a, b) in [
        (n(0), n(0)),
        (n(1), n(0)),
        (n(0), n(1)),
        (p - n(1), p - n(1)),
        (negm(&ri, p), ri.clone()),
        ((p - n(1)) / n(2), n(2)),
        (g[0].clone(), g[1].clone()),
        (half.clone(), n(1)),
        (n(1), half.clone()),
    ] {
        ops.push(Op2::Const(F2 { a, b }));
    }
    ops
}
fn machine2(run: &Run, depth: usize) {
    let ops = menu2(run.seed);
    let labels: Vec<String> = ops.iter().map(|o| o.label()).collect();
    let init = vec![St2 { x: Fq2::zero(), y: Fq2::one(), mx: F2::zero(), my: F2::one() }];
    let out = run.bfs("c07.Fq2", &labels, init, depth, key2, |s, i| step2(s, &ops[i]), inv2);
    if std::env::var("C07_DEBUG").is_ok() {
        let mut m: std::collections::HashMap<Vec<u8>, usize> = Default::default();
        for (i, s) in out.states.iter().enumerate() {
            let k = key2(s);
            let ck = k[..130].to_vec();
            if let Some(j) = m.get(&ck) {
                eprintln!("same concrete, different model: {:?} vs {:?}\n  {:?} {:?}\n  {:?} {:?}", out.path(*j), out.path(i), out.states[*j].mx, out.states[*j].my, s.mx, s.my);
                break;
            }
            m.insert(ck, i);
        }
    }
}

pub const QUICK_BITS: [usize; 13] = [0, 1, 63, 64, 127, 128, 191, 192, 253, 254, 255, 256, 300];

pub fn run(run: &Run) {
    match run.tier {
        Tier::Quick => {
            machine_fp::<Fr>(run, "c07.Fr", menu_fp::<Fr>(run.tier, run.seed, &QUICK_BITS, false), 4);
            machine_fp::<Fq>(run, "c07.Fq", menu_fp::<Fq>(run.tier, run.seed, &[], true), 5);
            machine2(run, 5);
        }
        Tier::Thorough => {
            let all: Vec<usize> = (0..=300).collect();
            machine_fp::<Fr>(run, "c07.Fr.all-bits", menu_fp::<Fr>(run.tier, run.seed, &all, false), 3);
            machine_fp::<Fr>(run, "c07.Fr", menu_fp::<Fr>(run.tier, run.seed, &QUICK_BITS, true), 5);
            machine_fp::<Fq>(run, "c07.Fq", menu_fp::<Fq>(run.tier, run.seed, &[], true), 8);
            machine2(run, 8);
        }
    }
}
pub fn meta(run: &Run) -> Meta {
    Meta {
        rule: "bfs: two-register machines (x, y) over Fr, Fq, Fq2 starting from (0, 1); every operation sequence up to the depth \
               bound over the menu {+,-,*,neg,inverse,pow,swap,constants,byte/decimal round trips,wide conversions,sqrt,set_bit(i,v),\
               from_hash,random(scripted stream)}; states de-duplicated on their exact content (canonical bytes + canonicity flag per \
               F_p component); invariants canonical / is_zero / == / model value checked in every state; a non-root state counts as \
               one distinct non-trivial case (it is reached by a distinct shortest operation sequence)"
            .into(),
        engine: "sm9mc-bfs".into(),
        bounds: json!({"depth": run.tier.pick(json!({"Fr":4,"Fq":5,"Fq2":5}), json!({"Fr.all-bits":3,"Fr":5,"Fq":8,"Fq2":8})),
                       "bit_indices": run.tier.pick(json!(QUICK_BITS), json!("0..=300 at depth 3; quick set at depth 5"))}),
        assumptions: vec![
            "for Fr::random only canonicity / == / is_zero are required; the stream-to-value mapping is not part of the property".into(),
            "setting a bit index >= 256 may be ignored or add 2^i mod r; clearing it must be a no-op".into(),
        ],
    }
}

pub fn replay(c: &Value) -> Result<(), Bad> {
    let op = c["op"].as_str().unwrap();
    let path: Vec<String> = c["path"].as_array().unwrap().iter().map(|x| x.as_str().unwrap().to_string()).collect();
    fn go<F: FpMachine>(path: &[String]) -> Result<(), Bad> {
        let mut s = St::<F> { x: F::zero_(), y: F::one_(), mx: N::zero(), my: N::one() };
        inv_fp(&s)?;
        for l in path {
            match step_fp::<F>(&s, &Op::parse(l)) {
                None => panic!("replay: op {} is disabled in the model", l),
                Some(r) => s = r?,
            }
            inv_fp(&s)?;
        }
        Ok(())
    }
    if op.starts_with("c07.Fr") {
        go::<Fr>(&path)
    } else if op.starts_with("c07.Fq2") {
        let mut s = St2 { x: Fq2::zero(), y: Fq2::one(), mx: F2::zero(), my: F2::one() };
        inv2(&s)?;
        for l in &path {
            match step2(&s, &Op2::parse(l)) {
                None => panic!("replay: op {} is disabled", l),
                Some(r) => s = r?,
            }
            inv2(&s)?;
        }
        Ok(())
    } else {
        go::<Fq>(&path)
    }
}
#[allow(dead_code)]
fn unused() {
    let _ = N::one();
}

#!/usr/bin/env python3
"""regenerates the generated tables of DESIGN.md (between BEGIN/END markers) from matrix.tsv, seeded/*/meta.json, evidence"""
import subprocess,re,json,glob
def run(cmd): return subprocess.run(cmd,shell=True,capture_output=True,text=True).stdout
mt=run("python3 /verif/tools/matrix_table.py")
t1,t2=mt.split("\n\n",1)
def ev(dirn):
    rows={}
    for f in sorted(glob.glob(f'/verif/{dirn}/C*.json')):
        e=json.load(open(f)); c=e['coverage']
        rows[e['property_id']]=(c['states'],c['transitions'],c['distinct_nontrivial'],round(e['wall_s'],1))
    return rows
q,t=ev('evidence'),ev('evidence-thorough')
lines=["| id | quick: states / cases | transitions (calls compared) | wall s | thorough: states / cases | transitions | wall s |","|---|---|---|---|---|---|---|"]
for k in sorted(q):
    a=q[k]; b=t.get(k,("-","-","-","-"))
    lines.append(f"| {k} | {a[0]:,} | {a[1]:,} | {a[3]} | {b[0] if b[0]=='-' else format(b[0],',')} | {b[1] if b[1]=='-' else format(b[1],',')} | {b[3]} |")
summ="\n".join(lines)
s=open('/verif/DESIGN.md').read()
for name,body in [("matrix1",t1.strip()),("matrix2",t2.strip()),("summary",summ)]:
    s=re.sub(rf"<!-- BEGIN:{name} -->.*?<!-- END:{name} -->", lambda m: f"<!-- BEGIN:{name} -->\n{body}\n<!-- END:{name} -->", s, flags=re.S)
open('/verif/DESIGN.md','w').write(s)
print("DESIGN.md tables regenerated")

#!/usr/bin/env python3
"""structural check: every driver of the quick evidence also ran in the thorough evidence with at least as many
cases (the thorough tier explores a superset of the quick tier's alphabets)"""
import json, sys
bad = 0
for i in range(1, 19):
    pid = f"C{i:02d}"
    q = json.load(open(f"/verif/evidence/{pid}.json"))
    t = json.load(open(f"/verif/evidence-thorough/{pid}.json"))
    if q["tier"] != "quick" or t["tier"] != "thorough":
        print(pid, "tiers:", q["tier"], t["tier"]); bad += 1; continue
    td = {d["driver"]: d for d in t["coverage"]["drivers"]}
    for d in q["coverage"]["drivers"]:
        n = d["driver"]
        if n not in td:
            print(pid, "driver missing in thorough:", n); bad += 1
        elif td[n].get("cases", 0) < d.get("cases", 0):
            print(pid, n, "thorough cases", td[n].get("cases"), "< quick", d.get("cases")); bad += 1
print("superset check:", "ok" if not bad else f"{bad} problem(s)")
sys.exit(1 if bad else 0)

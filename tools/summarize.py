#!/usr/bin/env python3
"""print a markdown table of what the evidence files say (for DESIGN.md 13.5)"""
import json,glob,os
rows=[]
for f in sorted(glob.glob('/verif/evidence/C*.json')):
    e=json.load(open(f)); c=e['coverage']
    rows.append((e['property_id'],e['tier'],c['states'],c['transitions'],c['distinct_nontrivial'],len(c.get('drivers',[])),round(e['wall_s'],1),e.get('violations',0)))
print("| id | tier | states / cases | transitions (calls compared) | distinct non-trivial | drivers | wall s | violations |")
print("|---|---|---|---|---|---|---|---|")
for r in rows: print("| "+" | ".join(str(x) for x in r)+" |")

#!/usr/bin/env python3
"""markdown tables for DESIGN.md 13.6 from mutants/matrix.tsv and seeded/*/meta.json"""
import json,glob,collections,os
DESC={
 "m1":"mixed adder: equal-points -> double test deleted","m2":"==: y comparison deleted (P == -P)","m3":"G2 subgroup test switched off",
 "m5":"fast_pairing: p.normalize() deleted","m6":"from_hash: len > 64 -> >= 64","m7":"G2 raw format: x/y halves swapped consistently",
 "m11":"Fq12::pow(0) returns self","m14":"pairing(): identity short-circuit returns Fq12::zero()","m15":"G1::from_compressed: len != 33 -> len < 33 (EQUIVALENT since fix F3: the strict 32-byte constructor rejects longer input)",
 "m19":"Mul<Fr>: start from self, skip top bit (0*P = P)","m20":"G1 compressed parity bit inverted in encoder and decoder","m21":"Fr::from_slice 32-byte arm rejects >= r",
 "m29":"to_affine shortcut widened to z == 1 || y == 1","m30":"Fq::is_even on the Montgomery limbs","m33":"U256::random: low 256 bits, no reduction",
 "m34":"Fq2::is_even on the imaginary part","m35":"Fq::sqrt: non-residues get a wrong 'root'","m36":"debug_assert!(len <= 64) in Fr::from_slice",
 "s1":"probe: normalize() canonicalises a z = 0 value","s3":"probe: Gt::inverse by conjugation","s4":"probe: unreachable t6 == 0 arm returns self",
 "s5":"probe: scalar multiplication returns a rescaled representative (4x, 8y, 2z)","s6":"probe: other Err variants from the decoders","s7":"probe: from_str(\"\") is an error","s8":"probe: Fq::sqrt returns the other root",
 "unfix_F1":"reverse of fix F1 (set_bit)","unfix_F2":"reverse of fix F2 (compressed prefix)","unfix_F3":"reverse of fix F3 (G1 coordinates >= q)","unfix_F4":"reverse of fix F4 (Fq2::from_slice unwrap)","unfix_F5":"reverse of fix F5 (pairing identity operands)","unfix_F6":"reverse of fix F6 (Fq2::sqrt real axis)",
}
rows=[l.split('\t') for l in open('/verif/mutants/matrix.tsv').read().splitlines() if l.strip()]
by=collections.OrderedDict()
for p,c,e in rows: by.setdefault(p,[]).append((c,e))
def key(p): 
    import re
    m=re.match(r'([a-z_]+?)(\d+)$',p.replace('unfix_F','u'))
    return (m.group(1),int(m.group(2))) if m else (p,0)
print("| patch | change | quick checks that report it | inconclusive (exit 2) |")
print("|---|---|---|---|")
for p in sorted(by,key=key):
    v=by[p]
    caught=[c for c,e in v if e=='1']; mach=[c for c,e in v if e not in('0','1')]
    print(f"| {p} | {DESC.get(p,'')} | {' '.join(caught) or '**none** (must stay silent)' if p.startswith('s') else ' '.join(caught) or 'none'} | {' '.join(mach) or '-'} |")
print()
print("| seeded change | written for | what it is (from the sub-agent's notes) | quick checks that report it | inconclusive |")
print("|---|---|---|---|---|")
for f in sorted(glob.glob('/verif/seeded/*/meta.json')):
    m=json.load(open(f))
    d=m.get('summary','')
    print(f"| {m['seed']} | {m['breaks_property']} | {d} | {' '.join(m.get('caught_by',[])) or 'NOBODY'} | {' '.join(m.get('inconclusive',[])) or '-'} |")

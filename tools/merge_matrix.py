#!/usr/bin/env python3
"""merge a partial catalogue matrix (some checks only) into mutants/matrix.tsv by (patch, check)"""
import sys, collections
base = '/verif/mutants/matrix.tsv'
part = sys.argv[1]
rows = collections.OrderedDict()
for l in open(base).read().splitlines():
    p, c, e = l.split('\t'); rows[(p, c)] = e
n = 0
for l in open(part).read().splitlines():
    p, c, e = l.split('\t')
    if rows.get((p, c)) != e: n += 1
    rows[(p, c)] = e
def key(k):
    p, c = k
    return (p, c)
with open(base, 'w') as f:
    for (p, c), e in sorted(rows.items(), key=lambda kv: (kv[0][0], kv[0][1])):
        f.write(f"{p}\t{c}\t{e}\n")
print(f"merged {part}: {n} cells changed")

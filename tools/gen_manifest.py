#!/usr/bin/env python3
"""Regenerates /verif/MANIFEST.json from the table below (single source of truth)."""
import json, os, sys
ROOT = os.path.dirname(os.path.dirname(os.path.abspath(__file__)))

GRID = "bounded-exhaustive explicit-state exploration of the real code (every tuple of a designed finite alphabet, every call depth up to the bound) against an independent reference model"
BFS = "explicit-state breadth-first search over operation sequences of the real code with exact-state de-duplication, invariants and reference-model agreement checked in every state"

# id -> (built?, technique, level text, level note, design ref)
P = {
 "C07": (True, BFS + "; two-register machines over Fr, Fq, Fq2 with scripted RNG streams, set_bit, hash/byte/decimal conversions",
         "Every operation sequence up to the depth bound of the field register machines, executed on the real code; exact-state de-duplication (canonical bytes + canonicity flag); in every reached state: fully reduced, is_zero iff encoding 0, == iff encodings equal, encoding equals the model value; a watchdog turns a non-returning call into a violation.",
         "Bounded depth and finite menus (constants, bit indices, RNG scripts). Trusted: rustc, num-bigint, reference model.",
         "DESIGN.md 5 (C07)"),
 "C12": (True, GRID + "; all ordered pairs over FQ2 = S x S with Montgomery-extreme components",
         "Every ordered pair of the FQ2 alphabet through + - * == and commutativity, operator forms, associativity/distributivity triples, every unary observation, and agreement of the internal squaring with multiplication observed through G2::new(s^2 x, s^3 y, s) for every s; compared with pair arithmetic over BigUint (u^2 = -2); lazy-reduction bands (carry limb x number of subtractions) all required non-empty.",
         "Holds on the enumerated alphabet only. Trusted: rustc, num-bigint, reference model.",
         "DESIGN.md 5 (C12)"),
 "C14": (True, GRID + "; squares, non-residues, both axes of Fq2 on both sides of q/2, every small element of Fq2, halving operands with carry-boundary stored words, every small x as a compressed G1 encoding",
         "Fq::sqrt and Fq2::sqrt on a, a^2, 2a^2, -a^2 / x, x^2, nu*x^2 for every alphabet member and on every real and purely imaginary element of the axis alphabet (all four residuosity x half-plane classes required non-empty), on inputs whose internal halving operands (-a, a+w, a-w) have stored words with one-runs across 1-3 limb boundaries, decided by Euler's / the norm criterion with Some(s) squared back; G1::from_compressed on EVERY x below the bound; 14 cases re-executed each as the first square root of a fresh process (initial process-wide state).",
         "Which root is returned is unconstrained. Trusted: rustc, num-bigint.",
         "DESIGN.md 5 (C14)"),
 "C13": (True, GRID + "; every length 0..=70, every byte string of length <= 2, every short string over a 14-character alphabet, every Unicode scalar value in four string contexts, every bit index 0..=300",
         "All conversions (from_slice, TryFrom, interpret, from_str, from_hash, to_slice, to_big_endian, set_bit) on complete small scopes and boundary patterns at every length, compared with integer arithmetic (int(bytes) mod p, (int mod (r-1))+1, decimal value mod p).",
         "from_str(\"\") and setting bit indices >= 256 deliberately unconstrained. Trusted: rustc, num-bigint.",
         "DESIGN.md 5 (C13)"),
 "C01": (True, GRID + "; K x K x representatives^2 x three entry points, additivity triples, every identity representative",
         "bytes(e(aP1,bP2)) == bytes(g^(ab)) for every (a,b) of the scalar alphabet (0, 1, 2, r-1, lambda, long runs, ...) in three representations per side through pairing, fast_pairing and G2Prepared::pairing; e(P1,P2)^(ab) == e(aP1,bP2), g^(r-1)*g == 1, additivity in both arguments with library-computed sums of mixed representatives, every identity representative (including P - P and new(x,y,0)) against every value, non-degeneracy.",
         "Decided through discrete logs (every group element is a multiple of the generator); g is pinned by the published vectors. Enumerated alphabet only.",
         "DESIGN.md 5 (C01)"),
 "C02": (True, GRID + "; K2 x K2 direct textbook pairings, one operand rescaled by every special field value, G1 points chosen by the stored word of the first line coefficient, published vectors",
         "For every (a,b) the reference model computes a*P1, b*P2 and the R-ate pairing by the textbook algorithm (no discrete-log shortcut, nothing from the library enters the oracle); the library's 384 bytes must be identical for three representatives per side and all three entry points; the standard's three published values are reproduced through every entry point; G1 points of unknown discrete log whose x puts a carry-boundary stored word into the first tangent coefficient are paired through all entry points against the textbook value of their coordinates.",
         "Enumerated scalar alphabet only. The textbook implementation is bound to the standard by its published vectors.",
         "DESIGN.md 5 (C02), Appendix A"),
 "C03": (True, GRID + "; all concrete values^2 x three entry points; all call sequences on a prepared value up to a depth",
         "All representatives (8 non-identity kinds, 8 identity kinds) of every discrete log on both sides through all three entry points give byte-identical results equal to the model value; every sequence of pairing(&P_i) calls (with optional clone) up to the depth bound on one prepared value returns the model value at every step; every ordered pair of calls of the stateless entry points, run back to back on one thread, returns the model value (hidden state across calls); G1 points whose x puts a carry-boundary stored word into the halved first tangent coefficient of the Jacobian Miller loop give the textbook value through all three entry points.",
         "Enumerated alphabet, bounded call depth.",
         "DESIGN.md 5 (C03)"),
 "C11": (True, GRID + "; Gamma^2 products and equalities, exponent-law quadruples, every small exponent",
         "Gt elements g^k built five different ways; every ordered pair for * (against the product in F_q[w]/(w^12+2) on the decoded bytes and against g^(k+k')), commutativity, == iff encodings equal iff exponents equal, unit/inverse/g^0/g^1/order on every element, exponent laws, EVERY exponent below the bound, every 32-byte limb < q.",
         "Enumerated alphabet only.",
         "DESIGN.md 5 (C11)"),
 "C16": (True, BFS + "; register machines (A, B : G ; s : Fr) over G1 and G2, then the full product of reached values through the pairing entry points",
         "Every operation sequence up to the depth bound over 25 operations (add, sub, neg, scalar multiplication on either side, normalize, affine and encode/decode round trips, swap, resets, scalar updates) on the real code; states de-duplicated on their exact concrete content plus the tracked discrete logs; in every state the denoted points, is_zero, == in both orders, all three encodings and the scalar register are exactly those predicted from the discrete logs; every reached G1 value x every reached G2 value x 3 entry points gives g^(dd'); plus a long seeded program with arbitrary and boundary scalars and every single-position deviation from it (deviation-bounded histories); the G1 machine is explored a second time by stateright's BFS checker and the unique-state counts must agree.",
         "Bounded depth; scalar alphabet {0,1,2,r-1} and what the machine derives from it. Trusted: rustc, num-bigint, reference model.",
         "DESIGN.md 5 (C16)"),
 "C17": (True, GRID + "; FQ4^2, FQ12^2 through the cfg-guarded hook module, every supported Frobenius code, every addition-chain exponent, every small exponent, both final exponentiations, both Miller loops",
         "Internal tower types driven through an add-only hook module: mul, sparse mul (within precondition), squared, inverse, Frobenius, pow, final_exponentiation and final_exp on boundary / sparse / subfield / unitary / cyclotomic / generic elements against flat polynomial arithmetic in F_q[w]/(w^12+2) with Frobenius and final exponentiation by generic powering; lazy-reduction carry-limb x subtraction bands all required non-empty; internal Fq helpers (double, triple, squared, div2) on all of FP(q) incl. stored-value specials; the 4 Miller-loop x final-exponentiation combinations equal the reference pairing.",
         "Needs the hook module (cfg john_yu_sm9_core_verif). Enumerated alphabet only.",
         "DESIGN.md 5 (C17), 7"),
 "C18": (True, "bounded-exhaustive exploration of the union of the quick alphabets in two build configurations (release; release + debug assertions + overflow checks): oracle-free transcript comparison case by case, plus the oracle-carrying checks re-run in the second configuration",
         "Every case of the union of the quick alphabets (field pairs, conversions, every short byte string, set_bit indices, decoder corpus, group pairs, scalar multiples, pairings, Gt operations) is executed by the same driver in both builds and the observation records (result bytes / Err variant / None / panic text) must be identical; additionally 14 (thorough: 17) oracle-carrying checks, including the BFS machines, run in the dbg build and must not panic or deviate from the model.",
         "dbg keeps opt-level 3 and enables exactly debug-assertions and overflow-checks; identical panics in both profiles (documented unwraps) are not counted. Enumerated alphabets only.",
         "DESIGN.md 5 (C18)"),
 "C04": (True, GRID + "; all ordered pairs of concrete point values (discrete log x Jacobian representative), all triples of a small set, representatives whose Jacobian X / Y / Z coordinate (or the square of X / Y) is a chosen boundary field value, incl. the quotient-boundary bands of double / triple",
         "Every ordered pair over (D x {Aff, LibMul, LibSub, Scaled(2), Scaled(-1), Scaled(generic), ScaledX1, ScaledY1}) + 8 identity representatives for A+B, B+A, A-B, (A-B)+B, unary laws on every value, boundary field values pushed through the adder as Jacobian scalings, all triples of a small set; abstraction (x/z^2, y/z^3) compared with textbook affine chord-and-tangent on reference points; adder arm x relation histogram with every class required.",
         "Enumerated alphabet only. Trusted: rustc, num-bigint, reference model.",
         "DESIGN.md 5 (C04)"),
 "C05": (True, GRID + "; K x all concrete values, every scalar in two complete windows",
         "P*k and k*P for every (k, value) over the scalar alphabet x all representatives (identity included) against the reference k-fold sum; the discrete-log shortcut of the oracle is itself cross-checked against integer double-and-add; units 0/1/r-1, (a+b)P, (ab)P; EVERY scalar 0..bound and r-bound..r-1 on every representative of +-G and O.",
         "Enumerated alphabet only. Trusted: rustc, num-bigint, reference model.",
         "DESIGN.md 5 (C05)"),
 "C08": (True, GRID + "; all lengths 0..=140, all 256 prefix bytes, every single-bit flip, coordinate substitutions, cross-format confusion, structured off-curve points of order r; executed in two build profiles",
         "Six decoders and Fq2::from_slice on the BYTES alphabet; the small dimensions are covered completely (all lengths, all prefix bytes, all bit positions; thorough: all two-bit flips of two points). Oracle: reference decoder (exact length/prefix, coordinates < q, curve equation, r*P = O by reference scalar multiplication); accepted inputs must denote the reference point and re-encode to the input; no panic; the whole corpus runs in the release build and in the dbg build (debug assertions + overflow checks).",
         "Which Err variant comes back is unconstrained. Enumerated corpus only. Trusted: rustc, num-bigint, reference model.",
         "DESIGN.md 5 (C08)"),
 "C09": (True, GRID + "; subgroup / twist / small-order / sum points and near misses through every validating entry point; every ordered pair of validating calls on one thread (hidden state)",
         "AffineG1::new, AffineG2::new and all decoders on subgroup points, near misses, points of other curves, the first twist points of a fixed enumeration, their cofactor-cleared multiples, multiples of order dividing 13, 1621, 13*1621, and subgroup + small-order sums; oracle = curve equation and r*P = O with big-scalar reference multiplication; the twist order r(2q-r) is asserted for every twist point.",
         "Enumerated candidates only. Trusted: rustc, num-bigint, reference model.",
         "DESIGN.md 5 (C09)"),
 "C10": (True, GRID + "; all non-identity concrete values x 3 formats x 2 groups",
         "Library encodings of every representative equal the SM9 byte formats of the reference model's affine coordinates, decode to an equal value and re-encode identically.",
         "Enumerated alphabet only. Trusted: rustc, num-bigint, reference model.",
         "DESIGN.md 5 (C10)"),
 "C15": (True, GRID + "; the complete ==/!= table over all concrete values, normalize / affine conversion on every value",
         "Every ordered pair over all concrete values (including identity stored as (x,y,0) for several x,y, P vs -P, P vs lambda*P) for ==/!= in both orders decided by discrete logs; is_zero, normalize, AffineG::from_jacobian, From<AffineG> on every value; every special rescaling (2, -1, cube roots of unity, sqrt(-1), stored-word specials; G2 real and purely imaginary) against a small value set in both orders.",
         "Enumerated alphabet only. Trusted: rustc, num-bigint, reference model.",
         "DESIGN.md 5 (C15)"),
 "C06": (True, GRID + "; products of limb-boundary alphabets for Fq and Fr",
         "Every ordered pair of the FP(p) alphabet (canonical and Montgomery-targeted limb patterns, special values, paired partners) through + - * ==, every operator form, every unary operation, a^e for designated exponents and for EVERY exponent below a bound, each compared with BigUint arithmetic mod p; model-side carry-class histogram must have no empty feasible class.",
         "Holds on every element of the enumerated finite space, not for all 2^256 inputs. Trusted: rustc, num-bigint, reference model (validated against the published SM9 vectors at start).",
         "DESIGN.md 5 (C06)"),
}
ALL = ["C%02d" % i for i in range(1, 19)]

def main():
    checks = []
    na = []
    for pid in ALL:
        if pid in P and P[pid][0]:
            _, tech, text, note, ref = P[pid]
            checks.append({
                "property_id": pid,
                "quick_cmd": f"./check {pid} quick",
                "thorough_cmd": f"./check {pid} thorough",
                "evidence_file": f"/verif/evidence/{pid}.json",
                "replay_cmd_template": "./check replay {path}",
                "engine": "sm9mc",
                "level_claimed": {"category": "model_checking", "text": text, "design_ref": ref},
                "level_note": note,
                "technique": tech,
            })
        else:
            na.append({"property_id": pid, "reason": "check not built yet in this round (planned: see DESIGN.md section 5); not claimed until its machinery exists"})
    m = {
        "version": 1,
        "setup_cmd": "./check setup",
        "hooks": {
            "guard": "john_yu_sm9_core_verif",
            "enable": "RUSTFLAGS --cfg john_yu_sm9_core_verif, set for the whole /verif/mc workspace in mc/.cargo/config.toml; sm9_core is a path dependency on /repo so every check rebuilds from its working tree",
            "baseline_off_cmd": "cd /repo && cargo test --workspace --no-fail-fast --offline",
            "source_commits": HOOK_COMMITS,
            "add_only": True,
        },
        "engines": [
            {"name": "sm9mc", "path": "/verif/mc/checks", "serves_properties": [c["property_id"] for c in checks],
             "kind_free_text": "one binary; grid = bounded-exhaustive product exploration, bfs = explicit-state breadth-first search, both executing the real sm9_core code under catch_unwind and a non-termination watchdog"},
            {"name": "stateright-crosscheck", "path": "/verif/mc/checks/src/sr.rs", "serves_properties": ["C16"],
             "kind_free_text": "the C16 G1 register machine explored a second time by stateright 0.31's BFS checker; unique-state counts of the two explorers must agree"},
            {"name": "py-xcheck", "path": "/verif/py/xcheck.py", "serves_properties": [c["property_id"] for c in checks],
             "kind_free_text": "independent python re-computation of a dump of reference-model results (field ops, F12, curve multiples, pairings); run by setup_cmd"},
            {"name": "refmodel", "path": "/verif/mc/refmodel", "serves_properties": [c["property_id"] for c in checks],
             "kind_free_text": "independent reference model (BigUint, flat F_q[w]/(w^12+2), affine curves, textbook R-ate pairing), self-tested against the SM9 standard's published vectors at every start"},
        ],
        "checks": checks,
        "not_applicable": na,
        "notes": "Exit codes: 0 held, 1 VIOLATION, 2 machinery problem (build failure, vacuous class, cap) - never a verdict. known_findings.json lists fixed/open findings.",
    }
    json.dump(m, open(os.path.join(ROOT, "MANIFEST.json"), "w"), indent=1)
    print("MANIFEST.json:", len(checks), "claimed,", len(na), "not applicable")

HOOK_COMMITS = ["c27d000"]
if __name__ == "__main__":
    main()

#!/usr/bin/env python3
"""adds the human-written summary / needs_to_manifest fields to seeded/*/meta.json"""
import json,os
T={
"seed-C01-a":("identity check hoisted out of G2Prepared::miller_loop into fast_pairing: G2Prepared::pairing loses it","entry point G2Prepared::pairing + a G1 identity stored as (x,y,0) with x != 0 (e.g. P - P); canonical zero() still gives 1"),
"seed-C02-a":("fast_pairing rebuilt on G2Prepared without normalising the G1 argument","fast_pairing only, G1 operand with z != 1 (library Jacobian or rescaled)"),
"seed-C03-a":("two cooperating sites: G2Prepared::pairing handles the identity itself, miller_loop drops its is_zero test; fast_pairing is left unprotected","fast_pairing only + non-canonical G1 identity (x,y,0), Q not the identity"),
"seed-C04-a":("Jacobian+Jacobian adder: early exit compares raw y coordinates instead of the scaled ones","both operands z != 1, same point with different z (returns O instead of 2A), or (x,y,-z) vs (x,y,z)"),
"seed-C05-a":("double-and-add starting from the base point and skipping the top bit","scalar exactly 0 with a non-identity point (0*P = P)"),
"seed-C06-a":("Montgomery reduction skips a round when the working limb is already zero (drops the carry fold)","operands whose Montgomery form has a zero limb met in round 1..3 after a carry; ~2^-64 for random operands, 0.3% of boundary-limb pairs"),
"seed-C07-a":("final conditional subtraction of U256::mul inlined with > instead of >=","a value exactly equal to the modulus entering through the 32-byte constructor or set_bit; leaves a second zero, inverse() never returns"),
"seed-C08-a":("compressed prefix check rewritten as bytes[0] - 2 > 1 (u8 subtraction)","prefix byte 0x00 or 0x01 in a build with overflow checks: panic; release wraps and rejects"),
"seed-C09-a":("from_compressed builds the point directly after the square root instead of going through AffineG::new","G2::from_compressed only + x coordinate of a twist point outside the order-r subgroup"),
"seed-C10-a":("G2::to_compressed takes the parity from the Jacobian Y instead of the affine y","G2, compressed format, representative with z != 1 whose Re(Y) parity differs from Re(y)"),
"seed-C11-a":("Gt::pow inlined as square-and-multiply starting from the base, skipping the leading bit","exponent exactly 0 (g^0 = g)"),
"seed-C12-a":("sum_of_products: final subtraction inlined with > instead of >=","a product coordinate that cancels to 0 mod q with non-zero summands lands exactly on q: non-canonical zero"),
"seed-C13-a":("from_slice 33..=64-byte arm: shortcut through the strict 32-byte constructor when the upper half is zero","length 33..=64, all leading bytes zero, low 32 bytes >= modulus: None instead of the reduced value"),
"seed-C14-a":("Fq::sqrt: the leading is_zero special case deleted","input exactly 0: sqrt(0) = None"),
"seed-C15-a":("==: fast path comparing x and y directly when z1^2 == z2^2","z1 == -z2: (x,y,z) vs (x,-y,-z) unequal, (x,y,z) vs (x,y,-z) equal; a+b vs b+a"),
"seed-C16-a":("mixed adder: equal-points test replaced by a raw coordinate comparison","history: a = P+P; b = normalize(a) (or decode(encode(a))); a + b gives O instead of 4P"),
"seed-C17-a":("Fq12::inverse fast path for Fq4-subfield elements with a copy-paste slip in the guard (c1 tested twice)","elements with c1 == 0 and c2 != 0 (e.g. w^2): wrong inverse / None; also both final exponentiations on them"),
"seed-C18-a":("from_hash length guard replaced by v.len() - ha.len() and get_mut(..)?","input longer than 64 bytes: overflow panic in builds with overflow checks, None in release"),
"seed2-C02":("Fq2::inverse gains a fast path for purely imaginary elements using i^2 = -1 instead of -2","a G2 representative (l^2 x, l^3 y, l) with purely imaginary l: normalisation and every pairing entry point give a wrong value"),
"seed2-C04":("co-Z style fast path: the z1 == z2 == 1 arm widened to z1 == z2","two different points sharing the same z != 1 (e.g. both rescaled by the same lambda)"),
"seed2-C05":("4-bit fixed-window multiplication that skips zero 64-bit limbs, also below the top limb","scalars with an all-zero 64-bit limb below their top limb (2^64, 2^128, 2^200, 2^128+1, ...)"),
"seed2-C06":("U256::add open-coded with the carry added to the right-hand limb first (b.wrapping_add(carry))","right operand whose Montgomery form has limb 1 or 2 equal to 2^64-1 with a carry coming in: the carry is lost"),
"seed2-C10":("G2 compressed prefix chosen by Re(y) > q/2 instead of parity, consistently in encoder and decoder","about half of all G2 points ([5]P2, [7]P2, ...); self round trips still work"),
"seed2-C12":("sum_of_products for T <= 2: the carry-limb loop replaced by a single conditional subtraction","all four Montgomery forms of one sum in the top ~1% below q and the Montgomery quotient in its top ~2%: 2^256 lost, coordinate off by one"),
"seed2-C13":("U512::divrem decides the subtraction before doubling (r >= half / r > half)","even modulus only, i.e. Fr::from_hash (mod r-1) on inputs with a bit-prefix that is a multiple of r-1"),
"seed2-C15":("AffineG::from_jacobian normalises and then validates (x, y) with new(): z is never looked at","an identity stored as (x_P, y_P, 0) with (x_P, y_P) a valid point: from_jacobian returns Some(P)"),
"seed2-C16":("adder 'tidy-up': other.is_zero() test folded into the h == 0 branch","history: a = P - P (non-canonical identity); b = P + P (z != 1); b + a gives O instead of 2P (right operand only)"),
"seed3-C01":("G2Prepared::from gains a lazily built table for the generator P2, matched by comparing z and x only","Q = -P2 (any representative) through fast_pairing / G2Prepared: e(P,-P2) returned equal to e(P,P2)"),
"seed3-C03":("G2Prepared caches the coefficient table evaluated at the last G1 point, keyed on the affine x only","two consecutive calls on one prepared value (or a clone of a used one) with P and then -P"),
"seed3-C07":("U256::mul2 decides the reduction before the shift (self >= p>>1)","the single element whose stored (Montgomery) value is (q-1)/2, doubled inside point arithmetic / Fq2::sqrt: result 2^256-1, non-reduced"),
"seed3-C08":("G2::from_uncompressed computes bytes.len() - 1 before the length test","the empty byte string in a build with overflow checks: panic; release wraps and rejects"),
"seed3-C09":("subgroup test by a hand-written ladder over the bits of r with incomplete mixed additions","twist points of order 13 (the ladder hits -P after 12 = -1 mod 13 and degenerates): accepted by all four G2 constructors"),
"seed3-C11":("Gt::pow as a 4-bit window method over 64-bit limbs that skips zero limbs, also below the top limb","exponents with an all-zero 64-bit limb below their top limb (2^64, 2^128+5, 2^192)"),
"seed3-C14":("Fq2::sqrt fast path for purely imaginary input using i^2 = -1 (returns before the final check)","purely imaginary b*i with b/2 a residue: Some(t + t*i) whose square is not the input (unsound)"),
"seed3-C18":("debug_assert on the lazy-reduction accumulator in sum_of_products with a bound that is false by a narrow margin","Fq2 product whose four Montgomery forms are within a fraction of a percent of q: assertion fires in debug builds only"),
"seed4-a-sub":("U256::sub: 'self < other' replaced by an early-exit limb comparison that never looks at limb 0","stored values agreeing in limbs 3,2,1 with stored(a)[0] < stored(b)[0] (fraction 2^-192 of all pairs): modulus not added, result wraps, non-reduced and off by one"),
"seed4-b-invert":("U256::invert: early return when the stored value is 1 ('1 is its own inverse')","exactly one element per field: x = 2^-256 mod p (stored form 1); inverse(x) returns x"),
"seed4-c-square":("U256::square: the separate carry2 chain of the Montgomery reduction folded into the next limb with a one-limb ripple","limb 5 or 6 of the square of the stored value equal to 2^64-1 with a carry arriving (2^-63 for random operands; stored 2^192-1, 2^255-1; ~2% of boundary-limb stored values); x.pow(2) != x*x"),
"seed4-d-fq4inv":("Fq4::inverse fast path when the norm to Fq2 lies in Fq: scales by 1/n without conjugating","Fq4 elements with c1 != 0 and a real norm (density 1/q; every Fq4-unitary conj(y)/y; (1+u)+(2+u)v), and Fq12 unitary non-cyclotomic elements through Fq12::inverse"),
"seed4-e-zminus1":("adder helper z_powers(z) returns (z^2, z^2) when z^2 == 1: z^3 = +1 for z = -1","an addition operand whose Jacobian z is exactly -1 (lambda = -1 rescaling, or the z = x2 - x1 left by the affine adder) added to an independent point"),
"seed4-f-fromstr":("from_str fast path on plain 256-bit integers for strings of at most 78 digits (should be 77)","78-digit strings whose value is >= 2^256 (e.g. the decimal string of 2^256, '9' x 78): (n mod 2^256) mod p"),
"seed5-a-prepared-identity":("two edits: the affine adder returns the canonical zero() for opposite points, and the rewritten G2Prepared::miller_loop drops the g1.is_zero() guard of fix F5","a G1 identity stored as (x,y,0) with x != 0 that does not come from the affine adder (mixed-normalisation a + (-a), set_z(0), new(x,y,0)) through fast_pairing / G2Prepared::pairing"),
"seed5-b-normalize-eq":("two cooperating sites: normalize() rescales in place and leaves the identity as (0,0,0); == drops the 'other.is_zero() -> false' guard","a non-identity P compared with an identity stored as (0,0,0) on the right: P == O' is true (asymmetric, non-transitive ==)"),
"seed5-c-subassign-ref":("shared operator macro: SubAssign<&T> computes rhs - self","the single operator form a -= &b on the public Fr, Fq, Fq2 (no other form, no internal user)"),
"seed5-d-g2-compressed-129":("de-duplicated tagged decoders: G2::from_compressed reads x through a 64-byte window and loses its implicit length barrier","a 129-byte 0x04 || x || <anything> string fed to G2::from_compressed (cross-format): accepted, y bytes ignored"),
"seed5-e-fq12-toslice":("Fq12::to_slice written as a loop that skips zero Fq4 blocks but advances the offset only for non-zero ones","elements with a zero Fq4 block before a non-zero one: on Gt exactly the identity (Gt::one(), g*g^-1, e(O,Q)) serialises with the 01 at byte 127"),
"seed5-f-interpret-assert":("from_slice's wide arm routed through the public interpret wrappers, whose new 'remainder is canonical' debug_assert was copied into Fq with Fr's modulus","Fq wide conversions (33..=64 bytes, interpret) whose remainder lies in [r, q): panic in builds with debug assertions only"),
"seed2-C17":("Fq12::pow squares with a Granger-Scott cyclotomic squaring","pow(x, e >= 2) on any non-cyclotomic element; pairings only ever feed cyclotomic bases"),
}
for k,(s,n) in T.items():
    p=f"/verif/seeded/{k}/meta.json"
    if not os.path.exists(p): continue
    m=json.load(open(p)); m["summary"]=s; m["needs_to_manifest"]=n
    json.dump(m,open(p,"w"),indent=1)
print("ok")

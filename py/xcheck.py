#!/usr/bin/env python3
"""Second, independent oracle for the reference model (DESIGN.md 3.2): recomputes a dump of
refmodel results with plain Python integers and a differently structured implementation
(F12 inversion by Gaussian elimination, sqrt by the q = 5 mod 8 formula, final exponentiation by
Python's pow on a hand-written F12 class).  usage: xcheck.py <refdump.json>   exit 0 = all agree."""
import json, sys

t = 0x600000000058F98A
q = 36*t**4 + 36*t**3 + 24*t**2 + 6*t + 1
r = 36*t**4 + 36*t**3 + 18*t**2 + 6*t + 1
assert (q**12 - 1) % r == 0
FE = (q**12 - 1) // r
H = lambda s: int(s, 16)

# ---- F12 = F_q[w]/(w^12+2), lists of 12 ints
def f12(c0=0): return [c0 % q] + [0]*11
def f12_mul(a, b):
    t_ = [0]*23
    for i, x in enumerate(a):
        if x:
            for j, y in enumerate(b): t_[i+j] += x*y
    return [(t_[i] - 2*(t_[i+12] if i < 11 else 0)) % q for i in range(12)]
def f12_add(a, b): return [(x+y) % q for x, y in zip(a, b)]
def f12_sub(a, b): return [(x-y) % q for x, y in zip(a, b)]
def f12_pow(a, e):
    acc = f12(1)
    for bit in bin(e)[2:]:
        acc = f12_mul(acc, acc)
        if bit == '1': acc = f12_mul(acc, a)
    return acc
def f12_inv(a):
    # solve M y = e0 where M is the matrix of multiplication by a
    n = 12
    M = []
    for row in range(n):
        M.append([0]*n + [1 if row == 0 else 0])
    for col in range(n):
        e = [0]*n; e[col] = 1
        prod = f12_mul(a, e)
        for row in range(n): M[row][col] = prod[row]
    for c in range(n):
        piv = next(i for i in range(c, n) if M[i][c] % q)
        M[c], M[piv] = M[piv], M[c]
        inv = pow(M[c][c], -1, q)
        M[c] = [(x*inv) % q for x in M[c]]
        for i in range(n):
            if i != c and M[i][c]:
                f = M[i][c]
                M[i] = [(x - f*y) % q for x, y in zip(M[i], M[c])]
    return [M[i][n] for i in range(n)]
ORDER = [11, 5, 8, 2, 10, 4, 7, 1, 9, 3, 6, 0]
def f12_bytes(a): return ''.join('%064x' % a[k] for k in ORDER)

# ---- F2: a + b u, u^2 = -2
def f2_mul(x, y): return ((x[0]*y[0] - 2*x[1]*y[1]) % q, (x[0]*y[1] + x[1]*y[0]) % q)
def f2_inv(x):
    n = pow(x[0]*x[0] + 2*x[1]*x[1], -1, q)
    return (x[0]*n % q, (-x[1])*n % q)

# ---- generic affine curve arithmetic over a field given by (add, sub, mul, inv, zero-test)
class Fld:
    def __init__(s, add, sub, mul, inv, iszero, small): s.add, s.sub, s.mul, s.inv, s.iszero, s.small = add, sub, mul, inv, iszero, small
FQ = Fld(lambda a,b:(a+b)%q, lambda a,b:(a-b)%q, lambda a,b:a*b%q, lambda a:pow(a,-1,q), lambda a:a%q==0, lambda k:k%q)
FQ2 = Fld(lambda a,b:((a[0]+b[0])%q,(a[1]+b[1])%q), lambda a,b:((a[0]-b[0])%q,(a[1]-b[1])%q), f2_mul, f2_inv, lambda a:a[0]%q==0 and a[1]%q==0, lambda k:(k%q,0))
FQ12 = Fld(f12_add, f12_sub, f12_mul, f12_inv, lambda a: all(x % q == 0 for x in a), lambda k: f12(k))
def ec_add(F, P, Q):
    if P is None: return Q
    if Q is None: return P
    (x1, y1), (x2, y2) = P, Q
    if F.iszero(F.sub(x1, x2)):
        if F.iszero(F.add(y1, y2)): return None
        lam = F.mul(F.mul(F.small(3), F.mul(x1, x1)), F.inv(F.add(y1, y1)))
    else:
        lam = F.mul(F.sub(y2, y1), F.inv(F.sub(x2, x1)))
    x3 = F.sub(F.sub(F.mul(lam, lam), x1), x2)
    return (x3, F.sub(F.mul(lam, F.sub(x1, x3)), y1))
def ec_mul(F, P, k):
    acc = None
    for bit in bin(k)[2:] if k else '':
        acc = ec_add(F, acc, acc)
        if bit == '1': acc = ec_add(F, acc, P)
    return acc
def line(A, B, P):
    F = FQ12
    (xa, ya), (xb, yb) = A, B
    if F.iszero(F.sub(xa, xb)):
        if F.iszero(F.add(ya, yb)): return f12(1)
        lam = F.mul(F.mul(f12(3), F.mul(xa, xa)), F.inv(F.add(ya, ya)))
    else:
        lam = F.mul(F.sub(yb, ya), F.inv(F.sub(xb, xa)))
    return F.sub(F.sub(P[1], ya), F.mul(lam, F.sub(P[0], xa)))
def pairing(P, Q):
    if P is None or Q is None: return f12(1)
    w = [0, 1] + [0]*10
    wi = f12_inv(w); wi2 = f12_mul(wi, wi); wi3 = f12_mul(wi2, wi)
    emb = lambda z: [z[0]] + [0]*5 + [z[1]] + [0]*5
    Q0 = (f12_mul(emb(Q[0]), wi2), f12_mul(emb(Q[1]), wi3))
    PP = (f12(P[0]), f12(P[1]))
    f, T = f12(1), Q0
    for bit in bin(6*t + 2)[3:]:
        f = f12_mul(f12_mul(f, f), line(T, T, PP)); T = ec_add(FQ12, T, T)
        if bit == '1':
            f = f12_mul(f, line(T, Q0, PP)); T = ec_add(FQ12, T, Q0)
    Q1 = (f12_pow(Q0[0], q), f12_pow(Q0[1], q))
    Q2 = (f12_pow(Q1[0], q), f12_pow(Q1[1], q))
    f = f12_mul(f, line(T, Q1, PP)); T = ec_add(FQ12, T, Q1)
    nQ2 = (Q2[0], [(-x) % q for x in Q2[1]])
    f = f12_mul(f, line(T, nQ2, PP))
    return f12_pow(f, FE)

def main():
    d = json.load(open(sys.argv[1]))
    bad = 0
    def chk(name, ok):
        nonlocal bad
        if not ok:
            bad += 1
            print("xcheck FAIL:", name)
    chk("q", H(d["q"]) == q); chk("r", H(d["r"]) == r)
    for e in d["fq"]:
        a, b = H(e["a"]), H(e["b"])
        chk("fq mul", H(e["mul"]) == a*b % q)
        chk("fq add", H(e["add"]) == (a+b) % q)
        chk("fq sub", H(e["sub"]) == (a-b) % q)
        chk("fq inv", (e["inv"] is None) == (a % q == 0) and (a % q == 0 or H(e["inv"]) == pow(a, -1, q)))
        # q = 5 mod 8: Atkin's formula, independent of the model's Tonelli-Shanks
        sq = pow(a, (q-1)//2, q) in (0, 1)
        chk("fq is_square", e["is_square"] == sq)
        if e["sqrt"] is not None:
            s = H(e["sqrt"]); chk("fq sqrt", s*s % q == a % q)
            v = pow(2*a, (q-5)//8, q); i_ = 2*a*v*v % q; s2 = a*v*(i_-1) % q
            chk("fq sqrt (Atkin)", s2*s2 % q == a % q and s in (s2, q - s2))
        else:
            chk("fq sqrt none", not sq)
    for e in d["f2"]:
        x, y = (H(e["x"][0]), H(e["x"][1])), (H(e["y"][0]), H(e["y"][1]))
        chk("f2 mul", tuple(H(v) for v in e["mul"]) == f2_mul(x, y))
        if e["inv"] is not None: chk("f2 inv", tuple(H(v) for v in e["inv"]) == f2_inv(x))
        if e["sqrt"] is not None:
            s = (H(e["sqrt"][0]), H(e["sqrt"][1])); chk("f2 sqrt", f2_mul(s, s) == (x[0] % q, x[1] % q))
        n_ = (x[0]*x[0] + 2*x[1]*x[1]) % q
        chk("f2 is_square", e["is_square"] == (pow(n_, (q-1)//2, q) in (0, 1)))
    for e in d["f12"]:
        a = [H(v) for v in e["a"]]; b = [H(v) for v in e["b"]]
        chk("f12 mul", [H(v) for v in e["mul"]] == f12_mul(a, b))
        chk("f12 inv", [H(v) for v in e["inv"]] == f12_inv(a))
        chk("f12 frob1", [H(v) for v in e["frob1"]] == f12_pow(a, q))
        chk("f12 bytes", e["bytes"] == f12_bytes(a))
    G1 = (H(d["g1"][0]), H(d["g1"][1]))
    G2 = ((H(d["g2"][0][0]), H(d["g2"][0][1])), (H(d["g2"][1][0]), H(d["g2"][1][1])))
    chk("g1 on curve", (G1[1]**2 - G1[0]**3 - 5) % q == 0)
    chk("r*G1", ec_mul(FQ, G1, r) is None)
    chk("r*G2", ec_mul(FQ2, G2, r) is None)
    for e in d["mults"]:
        k = H(e["k"])
        p1 = ec_mul(FQ, G1, k); p2 = ec_mul(FQ2, G2, k)
        chk("g1 mult", (e["g1"] is None and p1 is None) or (p1 is not None and (H(e["g1"][0]), H(e["g1"][1])) == p1))
        chk("g2 mult", (e["g2"] is None and p2 is None) or (p2 is not None and ((H(e["g2"][0][0]), H(e["g2"][0][1])), (H(e["g2"][1][0]), H(e["g2"][1][1]))) == p2))
    for e in d["pairings"]:
        a, b = H(e["a"]), H(e["b"])
        val = pairing(ec_mul(FQ, G1, a), ec_mul(FQ2, G2, b))
        chk("pairing bytes", e["bytes"] == f12_bytes(val))
    g = pairing(G1, G2)
    chk("g^r == 1", f12_pow(g, r) == f12(1))
    print("xcheck: %d mismatches" % bad)
    sys.exit(0 if bad == 0 else 1)
main()
